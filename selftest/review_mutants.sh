#!/bin/bash
# review_mutants.sh [name-filter]: mutants proposed by the blind-spot reviewers (seeded/review/R-<prop>-<what>.patch).
# Runs the quick check of the property in the file name against each and records the verdict in seeded/review/RESULTS.txt
# (several instances with different filters may run side by side)
cd /verif
for p in seeded/review/R-*${1:-}*.patch; do
  prop=$(basename $p | cut -d- -f2)
  if ! git -C /repo apply --check $PWD/$p 2>/dev/null; then verdict=NOAPPLY; sig=""
  else
    out=$(selftest/quick_seed.sh $PWD/$p $prop 2>&1)
    if echo "$out" | grep -a -q "^VIOLATION property=$prop"; then verdict=caught; sig=$(echo "$out" | grep -a -m1 "signature:" | sed 's/.*signature: //'); else verdict=MISSED; sig=""; fi
  fi
  (
    flock 9
    grep -v "^$(basename $p) " seeded/review/RESULTS.txt 2>/dev/null > seeded/review/RESULTS.tmp; mv seeded/review/RESULTS.tmp seeded/review/RESULTS.txt
    echo "$(basename $p) $prop $verdict $sig" | tee -a seeded/review/RESULTS.txt
    sort -o seeded/review/RESULTS.txt seeded/review/RESULTS.txt
  ) 9> seeded/review/.lock
done
