#!/bin/bash
# review_mutants.sh [name-filter]: mutants proposed by the blind-spot reviewers (seeded/review/R-<prop>-<what>.patch).
# Runs the quick check of the property in the file name against each and appends the verdict to seeded/review/RESULTS.txt
cd /verif
for p in seeded/review/R-*${1:-}*.patch; do
  prop=$(basename $p | cut -d- -f2)
  out=$(selftest/quick_seed.sh $PWD/$p $prop 2>&1)
  if echo "$out" | grep -q "^VIOLATION property=$prop"; then verdict=caught; sig=$(echo "$out" | grep -m1 "signature:" | sed 's/.*signature: //'); else verdict=MISSED; sig=""; fi
  grep -v "^$(basename $p) " seeded/review/RESULTS.txt 2>/dev/null > seeded/review/RESULTS.tmp; mv seeded/review/RESULTS.tmp seeded/review/RESULTS.txt
  echo "$(basename $p) $prop $verdict $sig" | tee -a seeded/review/RESULTS.txt
done
sort -o seeded/review/RESULTS.txt seeded/review/RESULTS.txt
