#!/bin/bash
# try_benign.sh <id> <dir with refactor.patch> : applies a property-PRESERVING refactoring to a scratch worktree, checks
# that the repository suite still passes and runs all quick checks; any VIOLATION is a false-alarm candidate.
ID="$1"; SRC="$2"; shift 2
CHECKS="${*:-C01 C02 C03 C04 C05 C06 C07 C08 C09 C10 C11 C12 C13 C14 C15 C16 C17 C18 C19 C20}"
OUT=/verif/seeded/benign/$ID; mkdir -p "$OUT"
cp "$SRC/refactor.patch" "$OUT/patch.diff" || exit 2
cp "$SRC/REFACTOR_README.md" "$OUT/" 2>/dev/null
W=/tmp/confirm/benign-$ID; rm -rf "$W"
git -C /repo worktree add -q --detach "$W" HEAD || exit 2
mkdir -p "$W/tmp"
git -C "$W" apply "$OUT/patch.diff" || { echo "patch does not apply"; git -C /repo worktree remove --force "$W"; exit 2; }
CARGO_TARGET_DIR=/tmp/confirm/target-benign-$ID /verif/selftest/repo_suite.sh "$W" >"$OUT/suite.txt" 2>&1; SUITE=$?
rm -rf /tmp/confirm/target-benign-$ID
export VERIF_ALT_TARGET=/tmp/confirm/alt-benign-$ID VERIF_OUT=/tmp/confirm/out-benign-$ID; mkdir -p $VERIF_OUT
ALARMS=""; : >"$OUT/check_output.txt"
CHECK=${CHECK_CMD:-/verif/check}
for c in $CHECKS; do
  FATFS_PATH="$W" timeout 1200 $CHECK $c quick >"/tmp/confirm/benign-$ID.$c.out" 2>&1; rc=$?
  if grep -q "^VIOLATION" "/tmp/confirm/benign-$ID.$c.out" || [ $rc -ne 0 ]; then
    ALARMS="$ALARMS $c"
    { echo "== $c (exit $rc)"; grep -a -A4 "^VIOLATION\|MACHINERY" "/tmp/confirm/benign-$ID.$c.out" | cut -c1-500 | head -40; tail -3 "/tmp/confirm/benign-$ID.$c.out" | cut -c1-300; } >>"$OUT/check_output.txt"
  fi
  rm -f "/tmp/confirm/benign-$ID.$c.out"
done
rm -rf $VERIF_OUT $VERIF_ALT_TARGET; git -C /repo worktree remove --force "$W"
python3 - "$OUT" "$ID" "$SUITE" "$ALARMS" <<'PY'
import json,sys,os
out,id_,suite,alarms=sys.argv[1:5]
json.dump({"id":id_,"kind":"property-preserving refactoring","repo_suite_rc":int(suite),"checks_that_raised_an_alarm":alarms.split()},open(os.path.join(out,'meta.json'),'w'),indent=1)
print("suite rc",suite,"alarms:",alarms.split())
PY
