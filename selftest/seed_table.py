#!/usr/bin/env python3
"""Prints the markdown table of seeded changes (DESIGN.md §7) from /verif/seeded/*/meta.json."""
import json,glob,os,re
SUM=json.load(open("/verif/selftest/seed_summaries.json"))
rows=[]
for d in sorted(glob.glob('/verif/seeded/*/')):
    mp=os.path.join(d,'meta.json')
    if not os.path.exists(mp): continue
    m=json.load(open(mp))
    patch=open(os.path.join(d,'patch.diff')).read() if os.path.exists(os.path.join(d,'patch.diff')) else ''
    files=sorted(set(re.findall(r'^\+\+\+ b/(\S+)',patch,re.M)))
    what=SUM.get(m['id'],m.get('summary',''))
    rows.append((m['id'],m['breaks_property'],', '.join(files),what,'yes' if m.get('confirmed') else 'NO',' '.join(m.get('caught_by',[])) or '—'))
print('| seed | property | files | change (what it needs to manifest) | confirmed | caught by (quick tier) |')
print('|---|---|---|---|---|---|')
for r in rows: print('| '+' | '.join(r)+' |')
