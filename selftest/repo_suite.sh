#!/bin/bash
# Runs the repository's own test suite (guard off, default features) in DIR (default /repo) and
# compares the set of passing tests with the pinned baseline (/root/.vp/BASELINE.json stable_pass).
# Exit 0 iff every baseline test passes.
DIR="${1:-/repo}"
cd "$DIR" || exit 2
export CARGO_NET_OFFLINE=true
OUT=$(mktemp)
CARGO_TARGET_DIR="${CARGO_TARGET_DIR:-$DIR/target}" cargo test --workspace --no-fail-fast --offline >"$OUT" 2>&1
python3 - "$OUT" <<'PY'
import json,re,sys
out=open(sys.argv[1]).read()
base=json.load(open('/root/.vp/BASELINE.json'))['stable_pass']
cur=None; passed=set(); failed=set()
for line in out.splitlines():
    m=re.match(r'\s*Running (unittests )?(\S+)',line)
    if m:
        path=m.group(2)
        if path.startswith('src/'): cur='fatfs'
        else: cur='fatfs::'+path.split('/')[-1].replace('.rs','')
        continue
    m=re.match(r'\s*Doc-tests',line)
    if m: cur=None; continue
    m=re.match(r'test (\S+)(?: - should panic)? \.\.\. (\w+)',line)
    if m and cur:
        name=cur+'::'+m.group(1)
        (passed if m.group(2)=='ok' else failed).add(name)
missing=[t for t in base if t not in passed]
print(f"baseline {len(base)} passed-now {len(passed)} baseline-missing {len(missing)}")
for t in missing: print("  NOT PASSING:",t)
sys.exit(1 if missing else 0)
PY
rc=$?
rm -f "$OUT"
exit $rc
