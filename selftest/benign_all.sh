#!/bin/bash
# benign_all.sh <lane> <lanes>: every behaviour-preserving patch (seeded/benign/B*, seeded/benign/R2/*.patch) against all quick checks
cd /verif
i=0
for p in seeded/benign/B*/patch.diff seeded/benign/R2/*.patch; do
  i=$((i+1)); [ $((i % $2)) -eq $(($1 % $2)) ] || continue
  if [[ $p == */R2/* ]]; then id=R2-$(basename $p .patch); else id=$(basename $(dirname $p)); fi
  t=/tmp/confirm/bsrc-$id; mkdir -p $t; cp $p $t/refactor.patch
  [ -f seeded/benign/$id/REFACTOR_README.md ] && cp seeded/benign/$id/REFACTOR_README.md $t/
  echo "$id: $(selftest/try_benign.sh $id $t 2>&1 | tail -n 1)"
  rm -rf $t
done
