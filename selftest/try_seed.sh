#!/bin/bash
# Usage: try_seed.sh <seed-id> <dir with seed.patch and tests/seeded_demo.rs> <property> [checks...]
# 1. confirms the seeded change in a fresh scratch worktree: builds, repo suite still passes, demo fails with /
#    passes without the change;  2. applies it to /repo, runs the given quick checks (default: all), reverts.
# Writes /verif/seeded/<seed-id>/{patch.diff,seeded_demo.rs,meta.json,check_output.txt}.
set -u
ID="$1"; SRC="$2"; PROP="$3"; shift 3
CHECKS="${*:-C01 C02 C03 C04 C05 C06 C07 C08 C09 C10 C11 C12 C13 C14 C15 C16 C17 C18 C19 C20}"
OUT=/verif/seeded/$ID
mkdir -p "$OUT"
cp "$SRC/seed.patch" "$OUT/patch.diff" || exit 2
cp "$SRC/tests/seeded_demo.rs" "$OUT/seeded_demo.rs" 2>/dev/null
W=/tmp/confirm/$ID
rm -rf "$W"; mkdir -p /tmp/confirm
git -C /repo worktree add -q --detach "$W" HEAD || exit 2
mkdir -p "$W/tmp"
export CARGO_TARGET_DIR=/tmp/confirm/target-$ID CARGO_NET_OFFLINE=true   # per seed: concurrent evaluations must not share test binaries
cp "$OUT/seeded_demo.rs" "$W/tests/seeded_demo.rs"
( cd "$W" && cargo test --offline --test seeded_demo >"$OUT/demo_without.txt" 2>&1 ); DEMO_WITHOUT=$?
( cd "$W" && git apply "$OUT/patch.diff" ) || { echo "patch does not apply"; git -C /repo worktree remove --force "$W"; exit 2; }
( cd "$W" && cargo build --offline >/dev/null 2>&1 && cargo build --offline --no-default-features --features std,lfn,unicode >/dev/null 2>&1 ); BUILD=$?
( cd "$W" && cargo test --offline --test seeded_demo >"$OUT/demo_with.txt" 2>&1 ); DEMO_WITH=$?
rm -f "$W/tests/seeded_demo.rs"
/verif/selftest/repo_suite.sh "$W" >"$OUT/suite.txt" 2>&1; SUITE=$?
git -C /repo worktree remove --force "$W"
rm -rf /tmp/confirm/target-$ID
unset CARGO_TARGET_DIR
echo "build=$BUILD suite=$SUITE demo_with_change=$DEMO_WITH (want !=0) demo_without_change=$DEMO_WITHOUT (want 0)"
CONFIRMED=false
if [ $BUILD -eq 0 ] && [ $SUITE -eq 0 ] && [ $DEMO_WITH -ne 0 ] && [ $DEMO_WITHOUT -eq 0 ]; then CONFIRMED=true; fi
# run the checks against a scratch worktree with the change applied (FATFS_PATH), never against /repo itself
if [ -n "${CONFIRM_ONLY:-}" ]; then
  python3 - "$OUT" "$CONFIRMED" "$BUILD" "$SUITE" "$DEMO_WITH" "$DEMO_WITHOUT" <<'PY'
import json,sys,os
out,conf,build,suite,dw,dwo=sys.argv[1:7]
p=os.path.join(out,'meta.json')
m=json.load(open(p)) if os.path.exists(p) else {}
m["confirmed"]=conf=="true"
m.setdefault("confirmation",{}).update({"build_rc":int(build),"repo_suite_rc":int(suite),"demo_with_change_rc":int(dw),"demo_without_change_rc":int(dwo)})
json.dump(m,open(p,'w'),indent=1)
print("confirmed:",m["confirmed"])
PY
  exit 0
fi
CAUGHT=""
: >"$OUT/check_output.txt"
W2=/tmp/confirm/$ID-run
rm -rf "$W2"
git -C /repo worktree add -q --detach "$W2" HEAD || exit 2
if git -C "$W2" apply "$OUT/patch.diff"; then
  export VERIF_OUT=/tmp/confirm/out-$ID VERIF_ALT_TARGET=/tmp/confirm/alt-$ID
  mkdir -p $VERIF_OUT
  for c in $CHECKS; do
    FATFS_PATH="$W2" timeout 1200 /verif/check $c quick >"/tmp/confirm/$ID.$c.out" 2>&1; rc=$?
    if grep -q "^VIOLATION property=$c" "/tmp/confirm/$ID.$c.out"; then
      CAUGHT="$CAUGHT $c"
      { echo "== $c (exit $rc)"; grep -a -A3 "^VIOLATION" "/tmp/confirm/$ID.$c.out" | cut -c1-400 | head -24; } >>"$OUT/check_output.txt"
    elif [ $rc -ne 0 ]; then
      { echo "== $c exit $rc without VIOLATION line"; tail -5 "/tmp/confirm/$ID.$c.out"; } >>"$OUT/check_output.txt"
    fi
    rm -f "/tmp/confirm/$ID.$c.out"
  done
  rm -rf $VERIF_OUT $VERIF_ALT_TARGET
else
  echo "patch does not apply to the scratch worktree"
fi
git -C /repo worktree remove --force "$W2"
python3 - "$OUT" "$ID" "$PROP" "$CONFIRMED" "$BUILD" "$SUITE" "$DEMO_WITH" "$DEMO_WITHOUT" "$CAUGHT" "$CHECKS" <<'PY'
import json,sys,os
out,id_,prop,conf,build,suite,dw,dwo,caught,checks=sys.argv[1:11]
readme=''
p=os.path.join(out,'SEED_README.md')
meta={"id":id_,"breaks_property":prop,"confirmed":conf=="true",
 "confirmation":{"build_rc":int(build),"repo_suite_rc":int(suite),"demo_with_change_rc":int(dw),"demo_without_change_rc":int(dwo),
   "commands":["cargo build --offline (default and --no-default-features --features std,lfn,unicode)","/verif/selftest/repo_suite.sh <worktree>","cargo test --offline --test seeded_demo (with and without the change)"]},
 "checks_run":checks.split(),"caught_by":caught.split(),
 "needs_to_manifest":"see SEED_README.md"}
json.dump(meta,open(os.path.join(out,'meta.json'),'w'),indent=1)
print("confirmed:",meta["confirmed"],"caught_by:",meta["caught_by"])
PY
