#!/bin/bash
# quick_seed.sh <patch> <check>...   runs the given quick checks against a scratch worktree with <patch> applied
P="$1"; shift
W=/tmp/confirm/quick-$$
git -C /repo worktree add -q --detach "$W" HEAD || exit 2
git -C "$W" apply "$P" || { git -C /repo worktree remove --force "$W"; exit 2; }
export VERIF_ALT_TARGET=/tmp/confirm/quick-alt-$$ VERIF_OUT=/tmp/confirm/quick-out-$$; mkdir -p $VERIF_OUT
for c in "$@"; do
  FATFS_PATH="$W" timeout 1200 ${CHECK_CMD:-/verif/check} $c quick 2>&1 | grep -a -E "^(VIOLATION|  signature|  message|C[0-9]+ quick|MACH)" | cut -c1-300 | head -12
done
rm -rf $VERIF_OUT $VERIF_ALT_TARGET; git -C /repo worktree remove --force "$W"
