#!/usr/bin/env python3
import json,sys,glob
import jsonschema
jsonschema.validate(json.load(open('/verif/MANIFEST.json')), json.load(open('/root/.vp/MANIFEST.schema.json')))
es=json.load(open('/root/.vp/EVIDENCE.schema.json'))
n=0
for f in sorted(glob.glob('/verif/evidence/*.json')):
    try:
        jsonschema.validate(json.load(open(f)), es); n+=1
    except Exception as e:
        print("INVALID", f, str(e)[:300]); sys.exit(1)
print("manifest valid;", n, "evidence files valid")
