#!/bin/bash
# regress_seeds.sh <worker> <nworkers>: every seeded change (seeded/S-*/patch.diff) against the quick check of the
# property it was written to break, with the current machinery; verdicts go to seeded/REGRESSION.<worker>.txt
W=$1; N=$2; cd /verif; i=0
: > seeded/REGRESSION.$W.txt
for d in seeded/S-C*/; do
  i=$((i+1)); [ $((i % N)) -eq $W ] || continue
  id=$(basename $d); prop=$(echo $id | cut -d- -f2)
  out=$(selftest/quick_seed.sh $PWD/$d/patch.diff $prop 2>&1)
  if echo "$out" | grep -a -q "^VIOLATION property=$prop"; then v=caught
  elif grep -q '"neutralised_by"' $d/meta.json; then v="silent-as-it-should-be(neutralised-by-a-later-fix,see-meta.json)"
  else v=MISSED; fi
  echo "$id $prop $v $(echo "$out" | grep -a -m1 'signature:' | sed 's/.*signature: //')" >> seeded/REGRESSION.$W.txt
done
