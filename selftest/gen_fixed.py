#!/usr/bin/env python3
"""Regenerates the `fixed` list of known_findings.json from the fix: commits of /repo (run by hand after a fix)."""
import json,subprocess
kf=json.load(open('/verif/known_findings.json'))
log=subprocess.run(['git','-C','/repo','log','--format=%H %s'],capture_output=True,text=True).stdout.splitlines()
m={
 "ShortNameGenerator::new panicked":("C15","D3: create_file(\"\") / create_file(\"é\") panicked (slicing name[1..] inside a character)"),
 "an invalid new name made":("C01","D1/D2: rename(a, \"x:y\") failed but removed a; create_dir(\"x:y\") failed but consumed a cluster"),
 "rename moved a directory into its own subtree":("C01","D13: rename(d, d/loop) succeeded and detached d from the tree"),
 "a full fixed-size root directory":("C01","D14: create in a full 16-slot root returned WriteZero and left orphan long-name slots"),
 "create_dir leaked":("C01","D2: create_dir in a full root failed with NotEnoughSpace but kept the allocated cluster (free count 8 -> 7)"),
 "rename deleted the source entry before":("C01","D1: rename(d/e, e) into a full root failed with NotEnoughSpace and lost d/e"),
 "marking the volume dirty in the middle":("C03","D11: short-transferring device: second half of a FAT word written at boot offset 0x26 (chain links to cluster 255)"),
 "rename left the '..' entry":("C03","D12: after rename(d/e, e) the '..' entry of e still pointed at d's cluster"),
 "allocating the last cluster stored":("C05","D16: after allocating the last cluster fs-info held next-free = clusters+2 (out of range)"),
 "mount accepted a next-free hint one past":("C05","hint = clusters+2 in fs-info accepted at mount and written back at unmount"),
 "alloc_cluster retried after any error":("C09","D5: read/seek error during the first allocation scan reported as NotEnoughSpace"),
 "freeing or truncating a cluster chain ignored":("C09","D4: FAT read error during remove/truncate never returned (device-call budget exceeded)"),
 "format_volume divided by zero":("C06","D6: bytes_per_sector(1024).bytes_per_cluster(512) divided by zero"),
 "32-bit overflow while validating":("C06","D7: FAT32 with 512-byte clusters and 2^28-1 sectors: multiply overflow in validate_total_clusters; also mount of spf32 >= 2^31 (C07)"),
 "a FAT32 root directory cluster outside":("C07","D8: root cluster 0 / 0xFFFFFFFF / clusters+2 accepted; first listing panicked"),
 "the fixed-size long-name buffer":("C17","D10: fixed-buffer build: abandoned 2-slot run followed by a valid 1-slot run returned 26 units instead of 13 (also C19: builds disagree)"),
 "a fixed root directory whose entry count":("C03","D18: FAT16 volume with 17 root entries: the 18th slot (in the unused rest of the last root sector) was used for a new entry; an independent reader sees a truncated long-name run and a lost cluster (also C01/C04)"),
 "accepted the \".\" and \"..\" entries":("C03","D20: remove(\"d/e/.\") freed the chain of d/e and deleted its dot entry (entry in d still points at the freed cluster); rename(\"d/e/.\", \"x\") cross-linked the directory"),
 "marked data clusters 0x0FFFFFF0":("C06","D21: format of 272629756 sectors (FAT32, 512-byte clusters, 0x0FFFFFF4 clusters): entries of data clusters 0x0FFFFFF0..=0x0FFFFFF5 written as bad while fs-info counts them free"),
 "active-FAT number that is not smaller":("C07","D22: FAT32 boot sector with extended flags 0x8F (active copy 15 of 2), 64 sectors per cluster, FAT size 0x11111112: accepted at mount, stats() / read_status_flags() panic with multiply overflow (fs.rs fat_slice)"),
 "give back the clusters of a partly grown directory":("C01","D19b: one free cluster, directory with 5 free slots: create_file of a 255-character name (21 slots, two new clusters needed) failed with NotEnoughSpace and kept one cluster (free clusters 1 -> 0)"),
 "create_dir hid a storage error":("C09","D23: create_dir in a full 16-slot FAT12 root with one storage fault at device call 819..826 (the release of the new directory's cluster): the call returned NotEnoughSpace instead of the I/O error"),
 "wrote that slot back over later changes":("C03","D24: advancing clock: rename(\"d/e/../e\", root, \"x\") left x's '..' pointing at d; a handle from open_dir(\"d/e/..\") used after d/e was moved rewrote the '..' of the moved directory"),
 "mark the volume dirty before the first FAT":("C12","D26: one storage fault in the dirty-flag write of create_dir / create_file / remove / rename (the FAT or directory write before it had succeeded), then stats() -> Ok: the volume differs from its state before the failed call and the status byte says clean"),
 "File::truncate marks the volume dirty before":("C12","D27: truncate through a handle with the first device call failing, then the same truncate again -> Ok (or flush -> Ok): the shortened entry is written to a volume whose status byte says clean"),
 "stored free-cluster count that is too low":("C02","D28: clean FAT32 volume whose FS-information free count is 0 (advisory, stale) with free clusters in the table: create f, write 1 byte -> panic 'attempt to subtract with overflow' at fs.rs alloc_cluster (release builds: count wraps to 0xFFFFFFFF)"),
 "truncate at offset 0 that failed":("C14","D25: write 512, flush, seek 0, truncate with one storage fault (any of its 8 device calls), write 512, flush -> Ok; the image holds size 512 and first cluster 0: the flushed data is gone after a remount"),
 "grow a directory before writing":("C03","D19: full volume, directory with 5 free slots in its last cluster: create_file/rename of a 9-slot name returned NotEnoughSpace and left the 5 long-name slots already written as orphans"),
 "twenty completely filled long-name slots":("C17","D9: 20 fully filled long-name slots returned a 260-unit name"),
}
fixed=[]
for l in reversed(log):
    h,s=l.split(' ',1)
    if s.startswith('fix:'):
        for k,(p,w) in m.items():
            if k in s:
                fixed.append(f"fixed: property={p} {h[:12]} {w}")
                break
        else:
            print("UNMAPPED",s)
kf['fixed']=fixed
json.dump(kf,open('/verif/known_findings.json','w'),indent=1,ensure_ascii=False)
print(len(fixed),"fixed entries")
