// Pure, dependency-free helpers shared (via #[path]) between the harness and the feature-variant
// drivers: long-name state machine of the FAT specification, slot constructors, directory parser,
// and the C17 case generator. Nothing here depends on the `fatfs` crate.

pub fn le16(b: &[u8], o: usize) -> u16 {
    u16::from_le_bytes([b[o], b[o + 1]])
}

pub fn sfn_checksum(sfn: &[u8; 11]) -> u8 {
    let mut s: u8 = 0;
    for b in sfn {
        s = (if s & 1 != 0 { 0x80u8 } else { 0 }).wrapping_add(s >> 1).wrapping_add(*b);
    }
    s
}

#[derive(Debug, Clone, PartialEq, Eq)]
pub enum Lfn {
    /// no long-name slots precede the short entry
    None,
    Valid,
    /// a run precedes but is broken (order, gap, checksum, length, interrupted)
    Broken(String),
    /// valid run whose text has non-padding units after the NUL (two readings)
    Ambiguous,
}

/// one pending long-name slot: (slot index, order byte, checksum, 13 units, type byte, cluster word)
pub type RunSlot = (usize, u8, u8, [u16; 13], u8, u16);

/// Long-name state machine of the specification: judge the run of long-name slots that immediately
/// precedes a short entry. `ord_mask` is applied to every order byte first (0xFF = strict reading;
/// 0x5F = ignore the two undefined bits 0x80 / 0x20).
pub fn judge_run_masked(run: &[RunSlot], sfn: &[u8; 11], ord_mask: u8) -> (Lfn, Option<Vec<u16>>, Option<Vec<u16>>) {
    if run.is_empty() {
        return (Lfn::None, None, None);
    }
    let n = run.len();
    let first = run[0].1 & ord_mask;
    if first & 0x40 == 0 {
        return (Lfn::Broken("first slot lacks last-flag".into()), None, None);
    }
    let idx0 = (first & 0x3F) as usize;
    if idx0 == 0 || idx0 > 20 {
        return (Lfn::Broken(format!("index {idx0} out of 1..=20")), None, None);
    }
    if idx0 != n {
        return (Lfn::Broken(format!("run has {n} slots but starts at index {idx0}")), None, None);
    }
    let sum = sfn_checksum(sfn);
    for (k, r) in run.iter().enumerate() {
        let want = (n - k) as u8;
        let ord = r.1 & ord_mask;
        if k > 0 && ord & 0x40 != 0 {
            return (Lfn::Broken("last-flag inside run".into()), None, None);
        }
        if ord & 0x3F != want || (ord & 0x80) != 0 {
            return (Lfn::Broken(format!("slot {k} has order {ord:#x}, expected index {want}")), None, None);
        }
        if r.2 != sum {
            return (Lfn::Broken("checksum mismatch".into()), None, None);
        }
    }
    let mut units: Vec<u16> = Vec::with_capacity(n * 13);
    for r in run.iter().rev() {
        units.extend_from_slice(&r.3);
    }
    let nul = units.iter().position(|u| *u == 0);
    let (name, ambiguous) = match nul {
        Some(p) => {
            let rest_ok = units[p + 1..].iter().all(|u| *u == 0xFFFF);
            let in_last = p >= (n - 1) * 13;
            // a name whose own last unit is 0xFFFF (the padding value) in front of the terminator: readers that
            // strip padding from the end return it shortened (recorded as finding D17 under C15); both readings pass
            let ends_in_padding_value = p > 0 && units[p - 1] == 0xFFFF;
            (units[..p].to_vec(), !(rest_ok && in_last) || ends_in_padding_value)
        }
        None => {
            // no terminator: every unit belongs to the name; a trailing 0xFFFF is then indistinguishable from
            // padding written without a terminator
            let amb = units.last() == Some(&0xFFFF);
            (units.clone(), amb)
        }
    };
    if name.is_empty() && !ambiguous {
        return (Lfn::Broken("empty long name".into()), None, None);
    }
    if ambiguous {
        let mut alt = units.clone();
        while matches!(alt.last(), Some(0) | Some(0xFFFF)) {
            alt.pop();
        }
        if name.len() > 255 && alt.len() > 255 {
            return (Lfn::Broken(format!("{} units > 255", alt.len())), None, None);
        }
        if name.len() > 255 {
            // only the stripped reading is a name; a reader that counts the padding and gives the run up is right too
            return (Lfn::Ambiguous, Some(alt), Some(Vec::new()));
        }
        return (Lfn::Ambiguous, Some(name), Some(alt));
    }
    if name.len() > 255 {
        return (Lfn::Broken(format!("{} units > 255", name.len())), None, None);
    }
    (Lfn::Valid, Some(name), None)
}

pub fn judge_run(run: &[RunSlot], sfn: &[u8; 11]) -> (Lfn, Option<Vec<u16>>, Option<Vec<u16>>) {
    judge_run_masked(run, sfn, 0xFF)
}

/// set by the `oem-alt` pass of the C17 driver: the volume is mounted with the test code page instead of the crate's
/// default converter, and every 8.3 text the oracle expects is spelled with it
pub static OEM_ALT: std::sync::atomic::AtomicBool = std::sync::atomic::AtomicBool::new(false);

/// what the converter the volume is mounted with makes of one 8.3 byte: the crate's default (`LossyOemCpConverter`: U+FFFD for
/// every byte >= 0x80) or the test code page of the `oem-alt` pass (byte b >= 0x80 -> U+0100 + b: injective, never U+FFFD)
pub fn oem_decode(b: u8) -> char {
    if b < 0x80 {
        b as char
    } else if OEM_ALT.load(std::sync::atomic::Ordering::Relaxed) {
        char::from_u32(0x100 + u32::from(b)).unwrap()
    } else {
        '\u{FFFD}'
    }
}

pub fn short_display(sfn: &[u8; 11], nt: u8) -> String {
    let mut base: Vec<u8> = sfn[0..8].to_vec();
    while base.last() == Some(&b' ') {
        base.pop();
    }
    let mut ext: Vec<u8> = sfn[8..11].to_vec();
    while ext.last() == Some(&b' ') {
        ext.pop();
    }
    if nt & 0x08 != 0 {
        base.make_ascii_lowercase();
    }
    if nt & 0x10 != 0 {
        ext.make_ascii_lowercase();
    }
    if !base.is_empty() && base[0] == 0x05 {
        base[0] = 0xE5;
    }
    let conv = |b: &u8| oem_decode(*b);
    let mut s: String = base.iter().map(conv).collect();
    if !ext.is_empty() {
        s.push('.');
        s.extend(ext.iter().map(conv));
    }
    s
}

/// short name as the raw bytes a reader reports (base '.' ext, 0x05 -> 0xE5, no case flags)
pub fn short_bytes(sfn: &[u8; 11]) -> Vec<u8> {
    let bl = sfn[0..8].iter().rposition(|b| *b != b' ').map_or(0, |p| p + 1);
    let el = sfn[8..11].iter().rposition(|b| *b != b' ').map_or(0, |p| p + 1);
    let mut v: Vec<u8> = sfn[..bl].to_vec();
    if el > 0 {
        v.push(b'.');
        v.extend_from_slice(&sfn[8..8 + el]);
    }
    if !v.is_empty() && v[0] == 0x05 {
        v[0] = 0xE5;
    }
    v
}

// ---------------------------------------------------------------- slot constructors

fn put16(b: &mut [u8], o: usize, v: u16) {
    b[o..o + 2].copy_from_slice(&v.to_le_bytes());
}

pub const LFN_POS: [usize; 13] = [1, 3, 5, 7, 9, 14, 16, 18, 20, 22, 24, 28, 30];

pub fn mk_lfn_slot(order: u8, checksum: u8, units: &[u16; 13], attr: u8, typ: u8, cluster: u16) -> [u8; 32] {
    let mut s = [0u8; 32];
    s[0] = order;
    for (k, p) in LFN_POS.iter().enumerate() {
        put16(&mut s, *p, units[k]);
    }
    s[11] = attr;
    s[12] = typ;
    s[13] = checksum;
    put16(&mut s, 26, cluster);
    s
}

pub fn mk_sfn_slot(name: &[u8; 11], attr: u8, first_cluster: u32, size: u32) -> [u8; 32] {
    let mut s = [0u8; 32];
    s[0..11].copy_from_slice(name);
    s[11] = attr;
    put16(&mut s, 16, (21 << 9) | (1 << 5) | 1);
    put16(&mut s, 18, (21 << 9) | (1 << 5) | 1);
    put16(&mut s, 24, (21 << 9) | (1 << 5) | 1);
    put16(&mut s, 20, (first_cluster >> 16) as u16);
    put16(&mut s, 26, first_cluster as u16);
    s[28..32].copy_from_slice(&size.to_le_bytes());
    s
}

/// proper long-name run for `units` (stored order: highest index first)
pub fn mk_lfn_run(units: &[u16], sfn: &[u8; 11]) -> Vec<[u8; 32]> {
    let sum = sfn_checksum(sfn);
    let n = (units.len() + 12) / 13;
    let mut out = Vec::new();
    for idx in (1..=n).rev() {
        let mut part = [0xFFFFu16; 13];
        let s = (idx - 1) * 13;
        let e = (s + 13).min(units.len());
        part[..e - s].copy_from_slice(&units[s..e]);
        if e - s < 13 {
            part[e - s] = 0;
        }
        let mut order = idx as u8;
        if idx == n {
            order |= 0x40;
        }
        out.push(mk_lfn_slot(order, sum, &part, 0x0F, 0, 0));
    }
    out
}

// ---------------------------------------------------------------- directory parser (slot array -> entries)

#[derive(Debug, Clone)]
pub struct PEntry {
    pub sfn: [u8; 11],
    pub attr: u8,
    pub slot: usize,
    pub verdict: Lfn,
    pub name: Option<Vec<u16>>,
    pub alt: Option<Vec<u16>>,
    pub run_len: usize,
    /// case-flags byte (offset 12) of the short entry
    pub nt: u8,
}

/// Parse a slot array like a specification-conforming reader. `loose_attr`: treat any attribute byte
/// with the low four bits set as a long-name slot (the specification masks with 0x3F and compares with 0x0F).
/// Returns the live short entries (labels and deleted slots excluded) in order.
pub fn parse_slots(slots: &[[u8; 32]], loose_attr: bool, ord_mask: u8) -> Vec<PEntry> {
    let mut run: Vec<RunSlot> = Vec::new();
    let mut out = Vec::new();
    for (i, s) in slots.iter().enumerate() {
        if s[0] == 0x00 {
            break;
        }
        if s[0] == 0xE5 {
            run.clear();
            continue;
        }
        let attr = s[11];
        let is_lfn = if loose_attr { attr & 0x0F == 0x0F } else { attr & 0x3F == 0x0F };
        if is_lfn {
            let mut u = [0u16; 13];
            for (k, p) in LFN_POS.iter().enumerate() {
                u[k] = le16(s, *p);
            }
            // a slot carrying the last-flag starts a new set: whatever was pending before it is orphaned;
            // a slot without the flag while no set is open is an orphan as well
            if s[0] & ord_mask & 0x40 != 0 {
                run.clear();
            } else if run.is_empty() {
                continue;
            }
            run.push((i, s[0], s[13], u, s[12], le16(s, 26)));
            continue;
        }
        let mut sfn = [0u8; 11];
        sfn.copy_from_slice(&s[0..11]);
        if attr & 0x08 != 0 {
            run.clear();
            continue;
        }
        let (verdict, name, alt) = judge_run_masked(&run, &sfn, ord_mask);
        out.push(PEntry { sfn, attr, slot: i, verdict, name, alt, run_len: run.len(), nt: s[12] });
        run.clear();
    }
    out
}

/// What a reader returned for one entry.
#[derive(Debug, Clone, PartialEq, Eq)]
pub struct Got {
    pub short: Vec<u8>,
    pub long: Option<Vec<u16>>,
    pub attr: u8,
    /// (file_name(), short_file_name()) where the build has them (dynamic allocation)
    pub names: Option<(String, String)>,
}

/// Does the reader's output match the parse under one reading?
pub fn matches_reading(exp: &[PEntry], got: &[Got]) -> Result<(), String> {
    if exp.len() != got.len() {
        return Err(format!("{} entries returned, {} short entries present", got.len(), exp.len()));
    }
    for (e, g) in exp.iter().zip(got) {
        if short_bytes(&e.sfn) != g.short {
            return Err(format!("entry at slot {}: short name {:?} vs {:?}", e.slot, g.short, short_bytes(&e.sfn)));
        }
        // the string accessors: short_file_name() is the 8.3 name as stored; file_name() is the long name the reader
        // returned (decoded lossily) or, without one, the 8.3 name with the case flags applied
        if let Some((fname, sname)) = &g.names {
            let want_s = short_display(&e.sfn, 0);
            if *sname != want_s {
                return Err(format!("entry at slot {}: short_file_name() text {sname:?}, stored bytes say {want_s:?}", e.slot));
            }
            let want_f = match &g.long {
                Some(l) => String::from_utf16_lossy(l),
                None => short_display(&e.sfn, e.nt),
            };
            if *fname != want_f {
                return Err(format!("entry at slot {}: file_name() text differs from the units returned / the 8.3 name ({} vs {} characters)", e.slot, fname.chars().count(), want_f.chars().count()));
            }
        }
        match (&e.verdict, &g.long) {
            (Lfn::None, None) | (Lfn::Broken(_), None) => {}
            (Lfn::None, Some(l)) => return Err(format!("entry at slot {}: long name of {} units although no long-name slot precedes it", e.slot, l.len())),
            (Lfn::Broken(why), Some(l)) => {
                return Err(format!("entry at slot {}: long name of {} units returned for a broken run ({why})", e.slot, l.len()))
            }
            (Lfn::Valid, Some(l)) => {
                if Some(l) != e.name.as_ref() {
                    return Err(format!("entry at slot {}: long name differs from the run's text ({} vs {} units)", e.slot, l.len(), e.name.as_ref().map_or(0, Vec::len)));
                }
            }
            (Lfn::Valid, None) => return Err(format!("entry at slot {}: valid long-name run ignored", e.slot)),
            (Lfn::Ambiguous, l) => {
                let ok = match l {
                    Some(l) => Some(l) == e.name.as_ref() || Some(l) == e.alt.as_ref(),
                    None => e.name.as_ref().map_or(true, Vec::is_empty) || e.alt.as_ref().map_or(true, Vec::is_empty),
                };
                if !ok {
                    return Err(format!("entry at slot {}: long name matches neither reading of an ambiguous run", e.slot));
                }
            }
        }
    }
    Ok(())
}

/// Judge a reader's output against all admissible readings (attribute mask strict/loose x order bits strict/masked).
pub fn judge_listing(slots: &[[u8; 32]], got: &[Got]) -> Result<(), String> {
    for g in got {
        if g.long.as_ref().map_or(false, |l| l.len() > 255) {
            return Err(format!("long name of {} units (> 255)", g.long.as_ref().unwrap().len()));
        }
    }
    let mut first_err = None;
    for (loose, mask) in [(false, 0xFFu8), (true, 0xFF), (false, 0x5F), (true, 0x5F)] {
        let exp = parse_slots(slots, loose, mask);
        match matches_reading(&exp, got) {
            Ok(()) => return Ok(()),
            Err(e) => {
                if first_err.is_none() {
                    first_err = Some(e);
                }
            }
        }
    }
    Err(first_err.unwrap())
}

// ---------------------------------------------------------------- C17 case generator

pub const ORDERS_FULL: [u8; 14] = [0x01, 0x02, 0x03, 0x41, 0x42, 0x43, 0x14, 0x54, 0x15, 0x55, 0x40, 0x60, 0xC1, 0xE5];
pub const ORDERS_SMALL: [u8; 6] = [0x01, 0x02, 0x03, 0x41, 0x42, 0x43];
pub const ATTRS: [u8; 3] = [0x0F, 0x1F, 0x3F];
pub const N_TEXT: usize = 8;
pub const N_TERM: usize = 8;

pub fn text_kind(k: usize, salt: u16) -> [u16; 13] {
    let a = 0x61 + (salt % 20);
    match k {
        0 => [a, a + 1, a + 2, a + 3, a + 4, a + 5, 0x31, 0x32, 0x33, 0x34, 0x35, 0x36, 0x37],
        1 => [a, a + 1, a + 2, a + 3, a + 4, 0, 0xFFFF, 0xFFFF, 0xFFFF, 0xFFFF, 0xFFFF, 0xFFFF, 0xFFFF],
        2 => [a, a + 1, a + 2, a + 3, a + 4, 0, 0x41, 0x42, 0xFFFF, 0x43, 0, 0xFFFF, 0x44],
        3 => [0xFFFF; 13],
        4 => [0; 13],
        5 => [a, 0xD800, a + 1, 0xD801, 0x41, 0, 0xFFFF, 0xFFFF, 0xFFFF, 0xFFFF, 0xFFFF, 0xFFFF, 0xFFFF],
        6 => [0xDC00, a, 0xDFFF, 0, 0xFFFF, 0xFFFF, 0xFFFF, 0xFFFF, 0xFFFF, 0xFFFF, 0xFFFF, 0xFFFF, 0xFFFF],
        _ => [0x2F, 0x01, 0x1F, 0x5C, 0x3A, 0x2A, 0x3F, 0x22, 0x3C, 0x3E, 0x7C, 0x7F, 0x0A],
    }
}

pub const SFN_A: [u8; 11] = *b"TARGET  TXT";
pub const SFN_B: [u8; 11] = *b"OTHER   BIN";
pub const SFN_C: [u8; 11] = *b"SECOND  DAT";

/// terminator slots of kind `t`; returns (slots, sfn whose checksum is the "right" one, ends_at_area_end)
pub fn terminator(t: usize) -> (Vec<[u8; 32]>, [u8; 11], bool) {
    match t {
        0 => (vec![mk_sfn_slot(&SFN_A, 0x20, 0, 0)], SFN_A, false),
        1 => (vec![mk_sfn_slot(&SFN_B, 0x20, 0, 0)], SFN_A, false),
        2 => (vec![mk_sfn_slot(&SFN_A, 0x08, 0, 0), mk_sfn_slot(&SFN_C, 0x20, 0, 0)], SFN_A, false),
        3 => {
            let mut d = mk_sfn_slot(&SFN_A, 0x20, 0, 0);
            d[0] = 0xE5;
            (vec![d, mk_sfn_slot(&SFN_C, 0x20, 0, 0)], SFN_A, false)
        }
        4 => (vec![mk_sfn_slot(&SFN_A, 0x10, 0, 0)], SFN_A, false),
        5 => {
            let mut v = mk_lfn_run(&[0x6E, 0x65, 0x77], &SFN_C);
            v.push(mk_sfn_slot(&SFN_C, 0x20, 0, 0));
            (v, SFN_A, false)
        }
        6 => (vec![], SFN_A, false),
        _ => (vec![], SFN_A, true),
    }
}

/// number of cases of family 1 with k run slots over `orders`
pub fn family1_count(k: usize, orders: &[u8], attrs: &[u8]) -> u64 {
    let per = (orders.len() * 2 * attrs.len() * N_TEXT) as u64;
    per.pow(k as u32) * N_TERM as u64
}

/// build case `idx` of family 1: returns the slot sequence (without end marker) and whether it must be
/// placed at the very end of the directory area
pub fn family1_case(k: usize, orders: &[u8], attrs: &[u8], mut idx: u64) -> (Vec<[u8; 32]>, bool) {
    let t = (idx % N_TERM as u64) as usize;
    idx /= N_TERM as u64;
    let (term, right_sfn, at_end) = terminator(t);
    let right = sfn_checksum(&right_sfn);
    let mut slots = Vec::with_capacity(k + term.len());
    for j in 0..k {
        let o = orders[(idx % orders.len() as u64) as usize];
        idx /= orders.len() as u64;
        let c = idx % 2;
        idx /= 2;
        let a = attrs[(idx % attrs.len() as u64) as usize];
        idx /= attrs.len() as u64;
        let x = (idx % N_TEXT as u64) as usize;
        idx /= N_TEXT as u64;
        let sum = if c == 0 { right } else { right.wrapping_add(0x35) };
        slots.push(mk_lfn_slot(o, sum, &text_kind(x, j as u16 * 3), a, 0, 0));
    }
    slots.extend(term);
    (slots, at_end)
}

/// family 6: every sequence of `len` slots over twelve slot kinds, followed by the short entry the right checksum
/// belongs to — the reachable states of a long-name reader (run in progress at index i, no run, run just reset by a
/// deleted slot / label / out-of-range index / foreign short entry) followed by every kind of next slot
pub const N_KINDS: u64 = 12;
pub fn family6_count(len: usize) -> u64 {
    N_KINDS.pow(len as u32)
}
pub fn family6_case(len: usize, mut idx: u64) -> Vec<[u8; 32]> {
    let right = sfn_checksum(&SFN_A);
    let mut slots = Vec::with_capacity(len + 1);
    for j in 0..len {
        let k = idx % N_KINDS;
        idx /= N_KINDS;
        let mut text = [0u16; 13];
        for (i, t) in text.iter_mut().enumerate() {
            *t = 0x61 + ((j * 13 + i) % 26) as u16;
        }
        let lfn = |order: u8, sum: u8| mk_lfn_slot(order, sum, &text, 0x0F, 0, 0);
        slots.push(match k {
            0 => lfn(0x43, right),
            1 => lfn(0x42, right),
            2 => lfn(0x41, right),
            3 => lfn(0x03, right),
            4 => lfn(0x02, right),
            5 => lfn(0x01, right),
            6 => lfn(0x02, right.wrapping_add(0x35)),
            7 => lfn(0x40, right),
            8 => lfn(21, right),
            9 => {
                let mut d = mk_sfn_slot(&SFN_B, 0x20, 0, 0);
                d[0] = 0xE5;
                d
            }
            10 => mk_sfn_slot(b"A LABEL    ", 0x08, 0, 0),
            _ => mk_sfn_slot(&SFN_B, 0x20, 0, 0),
        });
    }
    slots.push(mk_sfn_slot(&SFN_A, 0x20, 0, 0));
    slots
}

/// family 2/3: maximal runs and abandoned-run probes (small fixed list)
pub fn special_cases() -> Vec<(String, Vec<[u8; 32]>)> {
    let mut v = Vec::new();
    for n in [19usize, 20, 21] {
        // n fully filled slots (13*n units, no terminator)
        let units: Vec<u16> = (0..n * 13).map(|i| 0x41 + (i % 26) as u16).collect();
        let sum = sfn_checksum(&SFN_A);
        let mut s = Vec::new();
        for idx in (1..=n).rev() {
            let mut part = [0u16; 13];
            part.copy_from_slice(&units[(idx - 1) * 13..idx * 13]);
            let mut order = idx as u8;
            if idx == n {
                order |= 0x40;
            }
            s.push(mk_lfn_slot(order, sum, &part, 0x0F, 0, 0));
        }
        s.push(mk_sfn_slot(&SFN_A, 0x20, 0, 0));
        v.push((format!("full-run-{n}-slots-{}-units", n * 13), s));
    }
    for len in [247usize, 254, 255, 256, 259, 260] {
        let units: Vec<u16> = (0..len).map(|i| 0x61 + (i % 26) as u16).collect();
        let mut s = mk_lfn_run(&units, &SFN_A);
        s.push(mk_sfn_slot(&SFN_A, 0x20, 0, 0));
        v.push((format!("proper-run-{len}-units"), s));
    }
    // proper runs of non-ASCII text: 2- and 3-byte characters up to the 255-unit limit, a valid surrogate pair
    for (tag, unit, n) in [("e-acute", 0x00E9u16, 128usize), ("e-acute", 0x00E9, 255), ("cjk", 0x4E2D, 100), ("cjk", 0x4E2D, 255)] {
        let units: Vec<u16> = vec![unit; n];
        let mut s = mk_lfn_run(&units, &SFN_A);
        s.push(mk_sfn_slot(&SFN_A, 0x20, 0, 0));
        v.push((format!("proper-run-{n}-units-of-{tag}"), s));
    }
    {
        let units: Vec<u16> = vec![0x61, 0xD83D, 0xDE00, 0x62, 0xD83D, 0xDE00];
        let mut s = mk_lfn_run(&units, &SFN_A);
        s.push(mk_sfn_slot(&SFN_A, 0x20, 0, 0));
        v.push(("proper-run-with-surrogate-pairs".into(), s));
    }
    // 20 slots holding 255 units followed by five padding values and NO terminator
    {
        let units: Vec<u16> = (0..255).map(|i| 0x61 + (i % 26) as u16).collect();
        let mut s = mk_lfn_run(&units, &SFN_A);
        // (mk_lfn_run put the terminator into unit 255 = the 9th unit of the first stored slot: make it padding)
        let padded = {
            let mut part = [0xFFFFu16; 13];
            part[..8].copy_from_slice(&units[247..255]);
            mk_lfn_slot(0x40 | 20, sfn_checksum(&SFN_A), &part, 0x0F, 0, 0)
        };
        s[0] = padded;
        s.push(mk_sfn_slot(&SFN_A, 0x20, 0, 0));
        v.push(("run-of-255-units-padded-without-terminator".into(), s));
    }
    // a run whose checksum is that of the DISPLAYED name (0xE5 lead byte) in front of the stored name (0x05 lead byte):
    // the checksum covers the 11 bytes as stored, the run is foreign; and the genuine run of that entry
    {
        let stored: [u8; 11] = *b"\x05BCDEFGHTXT";
        let mut shown = stored;
        shown[0] = 0xE5;
        let units: Vec<u16> = "foreign.txt".encode_utf16().collect();
        let mut s = mk_lfn_run(&units, &shown);
        s.push(mk_sfn_slot(&stored, 0x20, 0, 0));
        v.push(("run-with-checksum-of-displayed-0xe5-name".into(), s));
        let mut s = mk_lfn_run(&units, &stored);
        s.push(mk_sfn_slot(&stored, 0x20, 0, 0));
        v.push(("run-in-front-of-0x05-name".into(), s));
    }
    // a proper run of n slots in which one slot (any position) is marked deleted
    for n in 1..=7usize {
        let units: Vec<u16> = (0..n * 13 - 3).map(|i| 0x61 + (i % 26) as u16).collect();
        for p in 0..n {
            let mut s = mk_lfn_run(&units, &SFN_A);
            s[p][0] = 0xE5;
            s.push(mk_sfn_slot(&SFN_A, 0x20, 0, 0));
            v.push((format!("run-of-{n}-slots-with-slot-{p}-deleted"), s));
        }
    }
    // a proper run of n slots with one EXTRA slot inserted at position p (1..=n: after the p-th stored slot): a deleted
    // short entry, a deleted long-name slot, a volume label, a long-name slot with index 0 resp. 21. The slots
    // behind the insertion continue with the indices the interrupted run would have had (stale reader state)
    for n in 2..=4usize {
        let units: Vec<u16> = (0..n * 13 - 3).map(|i| 0x61 + (i % 26) as u16).collect();
        let sum = sfn_checksum(&SFN_A);
        let mut del_sfn = mk_sfn_slot(&SFN_B, 0x20, 0, 0);
        del_sfn[0] = 0xE5;
        let mut del_lfn = mk_lfn_slot(0x02, sum, &[0x41; 13], 0x0F, 0, 0);
        del_lfn[0] = 0xE5;
        let extras: Vec<(&str, [u8; 32])> = vec![
            ("deleted-short-entry", del_sfn),
            ("deleted-long-name-slot", del_lfn),
            ("volume-label", mk_sfn_slot(b"A LABEL    ", 0x08, 0, 0)),
            ("long-name-slot-index-0", mk_lfn_slot(0x40, sum, &[0x42; 13], 0x0F, 0, 0)),
            ("long-name-slot-index-21", mk_lfn_slot(21, sum, &[0x43; 13], 0x0F, 0, 0)),
        ];
        for p in 1..=n {
            for (en, e) in &extras {
                let mut s = mk_lfn_run(&units, &SFN_A);
                s.insert(p, *e);
                s.push(mk_sfn_slot(&SFN_A, 0x20, 0, 0));
                v.push((format!("run-of-{n}-slots-with-{en}-inserted-after-slot-{p}"), s));
            }
        }
    }
    // abandoned longer run followed by a shorter valid run (stale buffer probe)
    for (long_n, short_len) in [(3usize, 5usize), (3, 13), (20, 1), (2, 12), (5, 26)] {
        let units: Vec<u16> = (0..long_n * 13).map(|i| 0x51 + (i % 9) as u16).collect();
        let mut s = mk_lfn_run(&units, &SFN_B);
        // abandon it: no SFN follows, a new run starts
        let short: Vec<u16> = (0..short_len).map(|i| 0x61 + i as u16).collect();
        s.extend(mk_lfn_run(&short, &SFN_A));
        s.push(mk_sfn_slot(&SFN_A, 0x20, 0, 0));
        v.push((format!("abandoned-{long_n}-slot-run-then-{short_len}-unit-name"), s));
        // the same with the first run interrupted by a deleted slot
        let mut s2 = mk_lfn_run(&units, &SFN_B);
        let mut del = mk_sfn_slot(&SFN_B, 0x20, 0, 0);
        del[0] = 0xE5;
        s2.push(del);
        s2.extend(mk_lfn_run(&short, &SFN_A));
        s2.push(mk_sfn_slot(&SFN_A, 0x20, 0, 0));
        v.push((format!("deleted-after-{long_n}-slot-run-then-{short_len}-unit-name"), s2));
    }
    v
}

/// family 4: every value of every byte of [valid 2-slot run + SFN]; returns the 3 base slots
pub fn byte_base() -> Vec<[u8; 32]> {
    let units: Vec<u16> = (0..20).map(|i| 0x61 + i as u16).collect();
    let mut s = mk_lfn_run(&units, &SFN_A);
    s.push(mk_sfn_slot(&SFN_A, 0x20, 0, 0x1234));
    s
}

pub const BYTE_BOUNDARY: [u8; 16] = [0x00, 0x01, 0x05, 0x0F, 0x10, 0x20, 0x2E, 0x40, 0x41, 0x42, 0x7F, 0x80, 0xE5, 0xF0, 0xFE, 0xFF];

pub fn fnv(h: &mut u64, bytes: &[u8]) {
    for b in bytes {
        *h ^= *b as u64;
        *h = h.wrapping_mul(0x0100_0000_01B3);
    }
}
