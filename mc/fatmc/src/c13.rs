//! C13 — read-only use never writes to the storage.

use std::sync::Arc;

use fatfs::FatType;
use harness::dev::{Base, DevState, Kind};
use harness::explore::Checker;
use harness::sess::{self, Cfg, DirRef, Exec, Op, Plan, SeekSpec};
use harness::{decoder, vol};

use crate::common::{is_thorough, ExpSpec};

pub struct C13;

fn fsinfo_lacks_count(cfg: &Cfg) -> bool {
    let st = DevState::new(cfg.base.clone());
    let boot = st.read_vec(0, 512);
    let Ok(g) = decoder::parse_raw(&boot) else { return false };
    if g.width != 32 {
        return false;
    }
    let Some((_, _, _, free, _)) = decoder::fsinfo(&st, &g) else { return false };
    free == 0xFFFF_FFFF || free as u64 > g.clusters || g.status & 1 != 0
}

impl Checker for C13 {
    fn plan(&self) -> Plan {
        Plan { log_all: true, suffix_minimal: true, pre_decode: false, ..Default::default() }
    }

    fn check(&self, cfg: &Cfg, ops: &[Op], ex: &Exec) -> Vec<(String, String)> {
        let mut v = Vec::new();
        if ex.panic.is_some() {
            return v;
        }
        let st = ex.st.borrow();
        // geometry of the volume as it was handed to the library, not of what the session left behind
        let boot0 = DevState::new(cfg.base.clone()).read_vec(0, 512);
        let Ok(g) = decoder::parse_raw(&boot0) else { return v };
        if st.read_vec(0, 512) != boot0 {
            v.push(("C13/boot-sector-changed".into(), "the boot sector differs from the initial one after a read-only session".into()));
        }
        if let Some((i, k)) = ex.mount_failures.first() {
            v.push(("C13/remount-failed".into(), format!("mounting again after op #{i} of a read-only session failed: {k:?}")));
        }
        let stats_called = ops.iter().any(|o| matches!(o, Op::Stats));
        let exception = stats_called && fsinfo_lacks_count(cfg);
        let log = if ex.log_full.is_empty() { &ex.log } else { &ex.log_full };
        for r in log {
            if r.kind == Kind::Write {
                let in_fsinfo = r.len > 0
                    && g.region(r.off) == decoder::Region::FsInfo
                    && g.region(r.off + r.len as u64 - 1) == decoder::Region::FsInfo;
                if exception && in_fsinfo {
                    continue;
                }
                let during = ops.get(r.op_idx as usize).map_or("session-end", harness::explore::op_kind);
                v.push((
                    format!("C13/write-in-read-only-session/{:?}/{}", g.region(r.off), if r.in_drop { "in-destructor".to_string() } else { during.to_string() }),
                    format!("write of {} bytes at offset {} (op #{} {during}, in destructor: {})", r.len, r.off, r.op_idx, r.in_drop),
                ));
                break;
            }
        }
        if exception {
            // the exception permits changes in the information sector only
            for (pno, _) in st.canonical_overlay() {
                if g.region(pno * 512) != decoder::Region::FsInfo {
                    v.push(("C13/image-changed-outside-fsinfo".into(), format!("page {pno} differs from the initial image")));
                    break;
                }
            }
        }
        if !exception && !st.canonical_overlay().is_empty() {
            v.push(("C13/image-changed".into(), format!("{} pages differ from the initial image", st.canonical_overlay().len())));
        }
        v
    }

    fn key_extra(&self, ex: &Exec) -> u64 {
        // whether a statistics query happened is model-only state the exception depends on
        ex.outs.iter().any(|o| matches!(o, Ok(sess::Out::Stats { .. }))) as u64
    }
}

pub fn alphabet(cs: u32) -> Vec<Op> {
    let r = DirRef::Root;
    let s = |x: &str| x.to_string();
    let mut a = vec![
        Op::List { base: r, path: s("") },
        Op::ListOne { base: r, path: s("") },
        Op::List { base: r, path: s("very/long/path") },
        Op::ListOne { base: r, path: s("very") },
        Op::OpenDir { base: r, path: s("very"), keep: Some(0) },
        Op::List { base: DirRef::H(0), path: s("long") },
        Op::DropDir { d: 0 },
        Op::OpenFile { base: r, path: s("long.txt"), keep: Some(0) },
        Op::OpenFile { base: r, path: s("very/long/path/test.txt"), keep: Some(1) },
        Op::OpenFile { base: r, path: s("missing"), keep: None },
    ];
    for h in [0u8, 1] {
        a.push(Op::Read { h, len: 1 });
        a.push(Op::Read { h, len: cs + 1 });
        a.push(Op::ReadExact { h, len: 2 * cs });
        a.push(Op::Seek { h, pos: SeekSpec::Start(cs as u64) });
        a.push(Op::Seek { h, pos: SeekSpec::End(-1) });
        a.push(Op::Seek { h, pos: SeekSpec::Current(1) });
        a.push(Op::Extents { h });
        a.push(Op::DropFile { h });
    }
    a.extend([Op::Stats, Op::StatusFlags, Op::Label, Op::Meta, Op::Remount, Op::DropRemount]);
    a
}

/// populate through the library, unmount, and freeze the result as a new base image
pub fn populated(cfg: &Cfg, cs: u32) -> Cfg {
    let r = DirRef::Root;
    let s = |x: &str| x.to_string();
    let ops = vec![
        Op::CreateFile { base: r, path: s("long.txt"), keep: Some(0) },
        Op::WriteAll { h: 0, len: 2 * cs + 17 },
        Op::CreateDir { base: r, path: s("very"), keep: None },
        Op::CreateFile { base: r, path: s("short.txt"), keep: Some(1) },
        Op::WriteAll { h: 1, len: 14 },
        Op::CreateDir { base: r, path: s("very/long"), keep: None },
        Op::WriteAll { h: 0, len: cs },
        Op::CreateDir { base: r, path: s("very/long/path"), keep: None },
        Op::DropFile { h: 1 },
        Op::CreateFile { base: r, path: s("very/long/path/test.txt"), keep: Some(1) },
        Op::WriteAll { h: 1, len: cs + 1 },
        Op::Remove { base: r, path: s("short.txt") },
    ];
    let ex = sess::run(cfg, &ops, &Plan::default());
    assert!(ex.panic.is_none() && ex.outs.iter().all(Result::is_ok), "populate failed: {:?}", ex.outs);
    let img = ex.st.borrow().image();
    let mut c = cfg.clone();
    c.base = Arc::new(Base::Bytes(img));
    c.name = format!("{}-pop", cfg.name);
    let mut m = ex.model.clone();
    m.close_all();
    m.changed_since_mount = false;
    c.model0 = Some(Arc::new(m));
    c
}

pub fn variants(base: &Cfg) -> Vec<Cfg> {
    let mut out = Vec::new();
    let Base::Bytes(img0) = &*base.base else { unreachable!() };
    let g = vol::geo_of(img0);
    for status in [0u8, 1, 2, 3] {
        // fs-info variants: (name, free count, next-free hint)
        let last = g.clusters as u32 + 1;
        let frees: Vec<(&str, Option<u32>, Option<u32>)> = if g.width == 32 {
            vec![
                ("exact", None, None),
                ("nofree", Some(0xFFFF_FFFF), None),
                ("toolarge", Some(g.clusters as u32 + 7), None),
                // boundary values of a usable count: nothing free, everything free (stale, but a count), one too many
                ("count-zero", Some(0), None),
                ("count-eq-total", Some(g.clusters as u32), None),
                ("count-total-plus-1", Some(g.clusters as u32 + 1), None),
                ("hint-past-end", None, Some(last + 1)),
                ("hint-far-past-end", None, Some(0x0FFF_FFF0)),
                ("hint-reserved-1", None, Some(1)),
                ("hint-unset", None, Some(0xFFFF_FFFF)),
            ]
        } else {
            vec![("", None, None)]
        };
        for (n, f, h) in frees {
            if status >= 1 && (n.starts_with("hint") || n.starts_with("count-")) {
                continue;
            }
            let mut img = img0.clone();
            vol::set_status(&mut img, status);
            vol::set_fsinfo(&mut img, f, h);
            let mut c = base.clone();
            c.base = Arc::new(Base::Bytes(img));
            c.name = format!("{}-st{}{}{}", base.name, status, if n.is_empty() { "" } else { "-" }, n);
            out.push(c);
        }
    }
    // really dirty volume: recorded size of long.txt exceeds its cluster chain (chain cut after the first cluster)
    {
        let d = vol::decode_image(img0).expect("decode populated");
        let e = d.find_entry("/long.txt").expect("long.txt");
        let mut img = img0.clone();
        vol::set_status(&mut img, 1);
        let eoc = match g.width { 12 => 0xFFF, 16 => 0xFFFF, _ => 0x0FFF_FFFF };
        vol::set_fat(&mut img, &g, e.first_cluster, eoc);
        let mut c = base.clone();
        c.base = Arc::new(Base::Bytes(img));
        c.name = format!("{}-st1-cutchain", base.name);
        out.push(c);
    }
    // status recorded only in FAT entry 1 (FAT16/FAT32), boot-sector byte clean
    if g.width != 12 {
        for (n, dirty, io) in [("fat1-dirty", true, false), ("fat1-ioerr", false, true)] {
            let mut img = img0.clone();
            vol::set_fat1_flags(&mut img, dirty, io);
            let mut c = base.clone();
            c.base = Arc::new(Base::Bytes(img));
            c.name = format!("{}-st0-{n}", base.name);
            out.push(c);
        }
    }
    out
}

pub fn specs(tier: &str) -> Vec<ExpSpec> {
    let th = is_thorough(tier);
    let mut v = Vec::new();
    for ft in [FatType::Fat12, FatType::Fat16, FatType::Fat32] {
        let cfg = populated(&vol::tiny_with(ft, 12, 16), 512);
        for mut c in variants(&cfg) {
            c.clock0 = 1000;
            v.push(ExpSpec::new(c, alphabet(512), if th { 12 } else { 6 }));
        }
    }
    // the option left at its default / given in another position of the builder chain
    for ft in [FatType::Fat12, FatType::Fat16, FatType::Fat32] {
        let cfg = populated(&vol::tiny_with(ft, 12, 16), 512);
        for c in variants(&cfg) {
            if c.name.ends_with("st0") || c.name.ends_with("st0-exact") {
                for order in [1u8, 2, 3] {
                    let mut c2 = c.clone();
                    c2.clock0 = 1000;
                    c2.opts_order = order;
                    c2.name = format!("{}-opts{order}", c.name);
                    v.push(ExpSpec::new(c2, alphabet(512), 3));
                }
            }
        }
    }
    // FAT32 volume whose information sector is sector 2 (sector 1 unused)
    {
        let cfg = populated(&vol::tiny_with(FatType::Fat32, 12, 16), 512);
        let Base::Bytes(img0) = &*cfg.base else { unreachable!() };
        let mut img = img0.clone();
        let g = vol::geo_of(&img);
        assert!(g.reserved > 2 && g.fsinfo_sector == 1 && g.backup_sector != 2);
        let sec1 = img[512..1024].to_vec();
        img[1024..1536].copy_from_slice(&sec1);
        for b in &mut img[512..1024] {
            *b = 0;
        }
        img[48..50].copy_from_slice(&2u16.to_le_bytes());
        let mut c = cfg.clone();
        c.base = Arc::new(Base::Bytes(img));
        c.name = format!("{}-fsinfo2", cfg.name);
        for mut c in variants(&c) {
            if c.name.contains("st0-exact") || c.name.contains("st0-nofree") {
                c.clock0 = 1000;
                v.push(ExpSpec::new(c, alphabet(512), 3));
            }
        }
    }
    // FAT32 with clusters of two sectors (sector numbers and cluster numbers are easy to mix up)
    {
        let spec = vol::VolSpec { name: "t32-512x2".into(), fat: FatType::Fat32, bps: 512, spc: 2, fats: 2, root_entries: 0, clusters: Some(65525), free: Some(12), tail: 0 };
        let (img, cands) = vol::build(&spec).expect("fat32 512x2");
        let cfg = populated(&vol::cfg_from(&spec.name, img, cands), 1024);
        for mut c in variants(&cfg) {
            if c.name.contains("st0-exact") || c.name.contains("nofree") {
                c.clock0 = 1000;
                v.push(ExpSpec::new(c, alphabet(1024), if th { 7 } else { 4 }));
            }
        }
    }
    {
        let spec = vol::VolSpec { name: "t32-1024x1".into(), fat: FatType::Fat32, bps: 1024, spc: 1, fats: 2, root_entries: 0, clusters: Some(65525), free: Some(12), tail: 0 };
        let (img, cands) = vol::build(&spec).expect("fat32 1024x1");
        let cfg = populated(&vol::cfg_from(&spec.name, img, cands), 1024);
        for mut c in variants(&cfg) {
            if c.name.contains("st0-exact") || c.name.contains("nofree") {
                c.clock0 = 1000;
                v.push(ExpSpec::new(c, alphabet(1024), if th { 7 } else { 4 }));
            }
        }
    }
    v
}
