//! C19 — build features change only what they document. The same driver source is compiled against three
//! feature sets; each runs every history up to a depth over a long-name alphabet and writes one line per
//! history (hash of results + listings after every step + final image hash); traces are compared here.

use std::collections::BTreeMap;
use std::time::Instant;

use fatfs::FatType;
use harness::dev::Base;
use harness::report::Report;
use harness::vol;
use serde_json::json;

use crate::c17::{driver, tmp_dir};
use crate::common::violation;

pub fn image(ft: FatType) -> Vec<u8> {
    if ft == FatType::Fat32 {
        // builder-made: the free clusters are the lowest ones, so allocation scans stay short
        let mut s = harness::builder::MkSpec::new(32);
        s.reserved = 8;
        let mut b = harness::builder::Builder::new(s);
        let keep: Vec<u32> = (3..120).collect();
        b.ballast(&keep);
        b.set_fsinfo(keep.len() as u32, 3);
        return b.finish();
    }
    // clusters of four sectors on a used medium (every free cluster holds what looks like live entries), so that a build
    // which clears less of a new directory cluster than the others shows up in the image hash
    let spec = vol::VolSpec { name: "f".into(), fat: ft, bps: 512, spc: 4, fats: 2, root_entries: 512, clusters: Some(200), free: None, tail: 0 };
    let (mut img, _) = vol::build(&spec).expect("c19 image");
    let g = vol::geo_of(&img);
    let stale = harness::builder::sfn_slot(b"STALE   BIN", 0x20, 0, harness::builder::Times::default(), 0, 7);
    for (i, b) in img[g.data_off() as usize..g.data_end() as usize].iter_mut().enumerate() {
        *b = stale[i % 32];
    }
    img
}

fn read_trace(p: &std::path::Path) -> Vec<(u64, String, String, String)> {
    let s = std::fs::read_to_string(p).unwrap_or_default();
    s.lines()
        .filter_map(|l| {
            let mut it = l.split(' ');
            Some((it.next()?.parse().ok()?, it.next()?.to_string(), it.next()?.to_string(), it.next()?.to_string()))
        })
        .collect()
}

pub fn run(tier: &str) -> i32 {
    let t0 = Instant::now();
    let dir = tmp_dir();
    let mut rep = Report::new("C19", tier, "model_checking");
    let mut all: BTreeMap<String, (String, u64, String)> = BTreeMap::new();
    let mut histories = 0u64;
    let mut per = Vec::new();
    let mut matrix = Vec::new();
    let mut classes: BTreeMap<String, u64> = BTreeMap::new();
    for (ft, name) in [(FatType::Fat12, "fat12-root512"), (FatType::Fat32, "fat32")] {
        let ip = dir.join(format!("c19-{name}.img"));
        std::fs::write(&ip, image(ft)).expect("write image");
        let mut traces = Vec::new();
        for v in ["a", "b", "c"] {
            let tp = dir.join(format!("c19-{name}-{v}.trace"));
            let out = std::process::Command::new(driver(v)).args(["c19", ip.to_str().unwrap(), tier, tp.to_str().unwrap()]).output();
            match out {
                Ok(o) if o.status.success() => {}
                Ok(o) => {
                    eprintln!("MACHINERY ERROR: featdrv_{v} failed: {}", String::from_utf8_lossy(&o.stderr));
                    return 2;
                }
                Err(e) => {
                    eprintln!("MACHINERY ERROR: cannot run featdrv_{v}: {e}");
                    return 2;
                }
            }
            traces.push(read_trace(&tp));
            let _ = std::fs::remove_file(&tp);
            // match-relation matrix: every (stored name, looked-up name) pair against the fold this build documents
            match crate::c17::run_driver(v, &["c19m", ip.to_str().unwrap()]) {
                Ok(o) => {
                    histories += o.evals;
                    matrix.push(json!({"volume": name, "build": v, "pairs": o.evals}));
                    for (sig, n, msg) in o.viols {
                        all.entry(format!("{sig}/build-{v}")).or_insert((format!("{name}: {msg}"), 0, name.into())).1 += n;
                    }
                }
                Err(e) => {
                    eprintln!("MACHINERY ERROR: {e}");
                    return 2;
                }
            }
        }
        let _ = std::fs::remove_file(&ip);
        let (a, b, c) = (&traces[0], &traces[1], &traces[2]);
        if a.len() != b.len() || a.len() != c.len() || a.is_empty() {
            eprintln!("MACHINERY ERROR: traces have different lengths {} {} {}", a.len(), b.len(), c.len());
            return 2;
        }
        histories += a.len() as u64;
        let (mut ab, mut ac_ascii, mut ac_nocase, mut ac_case, mut panics) = (0u64, 0u64, 0u64, 0u64, 0u64);
        for i in 0..a.len() {
            *classes.entry(a[i].2.clone()).or_default() += 1;
            if a[i].3 != "ok" || b[i].3 != "ok" || c[i].3 != "ok" {
                panics += 1;
                all.entry("C19/panic-in-some-build".into()).or_insert((format!("{name}: history #{} panicked (A {}, B {}, C {})", a[i].0, a[i].3, b[i].3, c[i].3), 0, name.into())).1 += 1;
            }
            if a[i].1 != b[i].1 {
                ab += 1;
                all.entry("C19/alloc-vs-fixed-buffer-differ".into())
                    .or_insert((format!("{name}: history #{} ({}): trace/image hash {} with alloc, {} with the fixed long-name buffer", a[i].0, a[i].2, a[i].1, b[i].1), 0, name.into()))
                    .1 += 1;
            }
            if a[i].1 != c[i].1 {
                match a[i].2.as_str() {
                    "ascii" => {
                        ac_ascii += 1;
                        all.entry("C19/unicode-off-differs-on-ascii-names".into())
                            .or_insert((format!("{name}: history #{} uses ASCII names only but the build without `unicode` differs", a[i].0), 0, name.into()))
                            .1 += 1;
                    }
                    "nonascii-nocase" => {
                        ac_nocase += 1;
                        all.entry("C19/unicode-off-differs-without-case-pair".into())
                            .or_insert((format!("{name}: history #{} uses non-ASCII names but no two names that differ only by non-ASCII case, yet the build without `unicode` differs", a[i].0), 0, name.into()))
                            .1 += 1;
                    }
                    _ => ac_case += 1,
                }
            }
        }
        per.push(json!({"volume": name, "histories": a.len(), "A_vs_B_differences": ab, "A_vs_C_differences_ascii": ac_ascii, "A_vs_C_differences_nonascii_without_case_pair": ac_nocase, "A_vs_C_differences_with_non_ascii_case_pair(permitted)": ac_case, "panics": panics}));
    }
    // foreign directory contents (the C17 families incl. unpaired surrogates): listing + lookups give the same
    // per-case hash in all three builds
    {
        let rp = dir.join("c19-slots.img");
        std::fs::write(&rp, crate::c17::root_image()).expect("write image");
        let mut hashes = Vec::new();
        for v in ["a", "b", "c"] {
            match crate::c17::run_driver(v, &["c17", rp.to_str().unwrap(), "root", "quick"]) {
                Ok(o) => hashes.push((v, o.hash, o.evals)),
                Err(e) => {
                    eprintln!("MACHINERY ERROR: {e}");
                    return 2;
                }
            }
        }
        let _ = std::fs::remove_file(&rp);
        histories += hashes[0].2;
        for (v, h, _) in &hashes[1..] {
            if *h != hashes[0].1 {
                all.entry(format!("C19/crafted-directory-contents-differ/build-{v}"))
                    .or_insert((format!("listing + lookup hash over the crafted slot contents: build a {} vs build {v} {h}", hashes[0].1), 0, "slots".into()))
                    .1 += 1;
            }
        }
        per.push(json!({"volume": "crafted slot contents (C17 families)", "cases_per_build": hashes[0].2, "hashes": hashes.iter().map(|(v, h, _)| format!("{v}:{h}")).collect::<Vec<_>>()}));
    }
    for (sig, (msg, n, cfg)) in all {
        let mut v = violation("C19", &sig, &msg, &cfg);
        v.count = n;
        rep.add(v, json!({"check": "C19", "case": msg}));
    }
    let _ = Base::Bytes(vec![]);
    rep.coverage = json!({
        "states": histories,
        "transitions": histories * 3,
        "traces_validated_against_impl": histories * 3,
        "samples": [
            {"history": "create(<13 units>); create(<255 units>); open(<13 units>, upper-cased); remove(<255 units>)", "builds": "A=std+alloc+lfn+unicode, B=std+lfn+unicode, C=std+alloc+lfn"},
            {"history": "create(\"é\"); open(\"É\")", "class": "nonascii-case (the only class on which C may differ)"}
        ],
        "exhaustive": true,
        "histories_per_build": histories,
        "history_classes": classes,
        "per_volume": per,
        "match_relation_matrix": matrix,
        "explanation": "every history of the stated depth over an alphabet of long names (1..255 units, ASCII and non-ASCII with case partners) executed on the real crate in three feature builds; plus, per build, the match relation of every (stored name, looked-up name) pair over ~65 names and their upper/lower-cased forms against the fold that build documents (full Unicode upper-casing with `unicode`, ASCII only without); per history a hash of all results, the listing after every step and the final image; states = histories per build (no de-duplication), transitions = executions over the three builds",
        "technique": "exhaustive enumeration of operation histories on three feature builds of the real crate, traces compared pairwise",
    });
    rep.assumptions = vec!["no_std builds without `std` are not covered (the driver needs std); the std feature only adds std::io adapters".into()];
    rep.wall_s = t0.elapsed().as_secs_f64();
    rep.finish()
}
