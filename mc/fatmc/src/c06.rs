//! C06 — formatting yields a specification-valid empty volume for every accepted request.
//! Bounded-exhaustive enumeration of a declared option grid x threshold-adjacent sizes; thorough:
//! every sector count of the 32-bit range for default options (boot-sector hook).

use std::collections::BTreeMap;
use std::sync::atomic::{AtomicU64, Ordering};
use std::sync::Arc;
use std::time::Instant;

use fatfs::{FatType, FormatVolumeOptions};
use harness::decoder::{self, DecodeOpts};
use harness::dev::{new_dev, Base, Short};
use harness::model::ErrKind;
use harness::report::Report;
use harness::sess;
use rayon::prelude::*;
use serde_json::json;

use crate::common::{is_thorough, violation, wall_budget};

#[derive(Clone, Debug)]
pub struct Rec {
    pub bps: u16,
    pub bpc: Option<u32>,
    pub ft: Option<FatType>,
    pub fats: u8,
    pub root: u16,
    pub label: bool,
    pub vid: bool,
}

impl Rec {
    pub fn opts(&self) -> FormatVolumeOptions {
        let mut o = FormatVolumeOptions::new().bytes_per_sector(self.bps).fats(self.fats).max_root_dir_entries(self.root);
        if let Some(b) = self.bpc {
            o = o.bytes_per_cluster(b);
        }
        if let Some(f) = self.ft {
            o = o.fat_type(f);
        }
        if self.label {
            o = o.volume_label(*b"VERIF LABEL");
        }
        if self.vid {
            // (the request then also carries the other pass-through fields with non-default values)
            o = o.volume_id(0xFFFF_FFFF).media(0xF0).drive_num(0x01).heads(16).sectors_per_track(32);
        }
        o
    }
    pub fn is_default(&self) -> bool {
        self.bps == 512 && self.bpc.is_none() && self.ft.is_none() && self.fats == 2 && self.root == 512
    }
}

fn ftn(f: Option<FatType>) -> u8 {
    match f {
        None => 0,
        Some(FatType::Fat12) => 12,
        Some(FatType::Fat16) => 16,
        Some(FatType::Fat32) => 32,
    }
}

pub fn grid(th: bool) -> Vec<Rec> {
    let mut v = Vec::new();
    let bpss: &[u16] = &[512, 1024, 2048, 4096, 8192, 32768];
    let bpcs: Vec<Option<u32>> = {
        let mut b = vec![None];
        for i in 0..=8 {
            if th || i % 2 == 0 {
                b.push(Some(512u32 << i));
            }
        }
        b
    };
    for &bps in bpss {
        for bpc in &bpcs {
            for ft in [None, Some(FatType::Fat12), Some(FatType::Fat16), Some(FatType::Fat32)] {
                for fats in [1u8, 2] {
                    for root in [0u16, 1, 16, 17, 112, 512, 8192, 65535] {
                        let lv: &[(bool, bool)] = if th { &[(false, false), (true, false), (false, true), (true, true)] } else { &[(false, false), (true, true)] };
                        for &(label, vid) in lv {
                            if !th && (label || vid) && !(root == 512 || root == 16) {
                                continue;
                            }
                            v.push(Rec { bps, bpc: *bpc, ft, fats, root, label, vid });
                        }
                    }
                }
            }
        }
    }
    v
}

/// stable class of a panic message: the text without the source location
pub fn panic_class(p: &str) -> String {
    let t = p.split(" @ ").next().unwrap_or(p);
    let loc = p.split(" @ ").nth(1).unwrap_or("").rsplit('/').next().unwrap_or("").split(':').next().unwrap_or("").to_string();
    format!("{}-in-{}", t.chars().map(|c| if c.is_ascii_alphanumeric() { c } else { '-' }).take(48).collect::<String>(), loc)
}

fn hook(rec: &Rec, total: u32) -> Result<Result<[u8; 512], ErrKind>, String> {
    let o = rec.opts();
    sess::guarded(|| fatfs::verif::boot_sector_bytes(&o, total).map_err(|e| sess::kind_of(&e)))
}

/// sizes at which to try a record
pub fn sizes(rec: &Rec) -> Vec<u32> {
    let mut s: Vec<u64> = (0..=100).collect();
    for k in 0..=32u32 {
        let p = 1u64 << k;
        s.extend([p.saturating_sub(1), p, p + 1]);
    }
    s.push(u32::MAX as u64);
    s.push(u32::MAX as u64 - 1);
    let kib = 1024u64;
    let mib = kib * 1024;
    let gib = mib * 1024;
    for bytes in [4200 * kib, 16 * mib, 128 * mib, 260 * mib, 512 * mib, 8 * gib, 16 * gib, 32 * gib, 2 * 1024 * gib] {
        let c = bytes / rec.bps as u64;
        for d in -2i64..=2 {
            s.push((c as i64 + d).max(0) as u64);
        }
    }
    // sizes at which the cluster count the library produces crosses the FAT12/16 and FAT16/32 limits
    let count = |t: u32| -> Option<u64> {
        match hook(rec, t) {
            Ok(Ok(b)) => decoder::parse_raw(&b).ok().map(|g| g.clusters),
            _ => None,
        }
    };
    for limit in [4085u64, 65525] {
        // bisection over sizes where formatting succeeds is not monotone in general; scan a coarse ladder
        // and refine around every sign change
        let mut prev: Option<(u32, bool)> = None;
        let mut t: u64 = 1;
        while t <= u32::MAX as u64 {
            if let Some(c) = count(t as u32) {
                let above = c >= limit;
                if let Some((pt, pa)) = prev {
                    if pa != above {
                        // refine between pt and t
                        let (mut lo, mut hi) = (pt as u64, t);
                        while hi - lo > 1 {
                            let mid = (lo + hi) / 2;
                            match count(mid as u32) {
                                Some(c) if (c >= limit) == pa => lo = mid,
                                Some(_) => hi = mid,
                                None => lo = mid,
                            }
                        }
                        for d in -2i64..=2 {
                            s.push((hi as i64 + d).max(0) as u64);
                        }
                    }
                }
                prev = Some((t as u32, above));
            }
            t = t * 9 / 8 + 1;
        }
    }
    // sizes at which the request stops (or starts) being accepted: coarse ladder, every accept/reject edge refined
    {
        let acc = |t: u64| -> bool { matches!(hook(rec, t as u32), Ok(Ok(_))) };
        let mut prev: Option<(u64, bool)> = None;
        let mut t: u64 = 1;
        while t <= u32::MAX as u64 {
            let a = acc(t);
            if let Some((pt, pa)) = prev {
                if pa != a {
                    let (mut lo, mut hi) = (pt, t);
                    while hi - lo > 1 {
                        let mid = (lo + hi) / 2;
                        if acc(mid) == pa {
                            lo = mid;
                        } else {
                            hi = mid;
                        }
                    }
                    for d in -2i64..=2 {
                        s.push((hi as i64 + d).max(0) as u64);
                    }
                }
            }
            prev = Some((t, a));
            t = t * 9 / 8 + 1;
        }
    }
    let mut v: Vec<u32> = s.into_iter().filter(|x| *x <= u32::MAX as u64).map(|x| x as u32).collect();
    v.sort_unstable();
    v.dedup();
    v
}

/// judge boot-sector bytes of an accepted request
fn judge_boot(rec: &Rec, total: u32, b: &[u8; 512]) -> Option<(String, String)> {
    let reasons = decoder::incoherent_reasons(b);
    if !reasons.is_empty() {
        return Some(("C06/accepted/incoherent-geometry".into(), format!("{rec:?} total {total}: {reasons:?}")));
    }
    let g = decoder::parse_raw(b).unwrap();
    if g.total_sectors != total as u64 || g.bps != rec.bps as u32 || g.nfats != rec.fats as u32 {
        return Some(("C06/accepted/fields-differ-from-request".into(), format!("{rec:?} total {total}: {g:?}")));
    }
    if let Some(f) = rec.ft {
        if g.width != ftn(Some(f)) {
            return Some(("C06/accepted/width-differs-from-request".into(), format!("{rec:?} total {total}: width {}", g.width)));
        }
    }
    if let Some(bpc) = rec.bpc {
        if g.cluster_size() != bpc as u64 {
            return Some(("C06/accepted/cluster-size-differs-from-request".into(), format!("{rec:?} total {total}: cluster size {}", g.cluster_size())));
        }
    }
    if g.fat_entries_total() < g.clusters + 2 {
        return Some((
            "C06/accepted/fat-cannot-address-all-clusters".into(),
            format!("{rec:?} total {total}: FAT holds {} entries, needs {}", g.fat_entries_total(), g.clusters + 2),
        ));
    }
    if g.data_start_sec + g.clusters * g.spc as u64 > g.total_sectors {
        return Some(("C06/accepted/regions-exceed-total".into(), format!("{rec:?} total {total}")));
    }
    if g.width != 32 && g.root_entries != rec.root as u32 {
        return Some(("C06/accepted/root-entries-differ".into(), format!("{rec:?} total {total}: {}", g.root_entries)));
    }
    if b[510] != 0x55 || b[511] != 0xAA {
        return Some(("C06/accepted/no-boot-signature".into(), format!("{rec:?} total {total}")));
    }
    // BS_jmpBoot: EB xx 90 or E9 xx xx, and a short jump must land behind the parameter block
    {
        let bpb_end: usize = if g.width == 32 { 90 } else { 62 };
        let ok = (b[0] == 0xEB && b[2] == 0x90 && 2 + b[1] as usize >= bpb_end && 2 + (b[1] as usize) < 510) || b[0] == 0xE9;
        if !ok {
            return Some(("C06/accepted/boot-jump-invalid".into(), format!("{rec:?} total {total}: {:02x?}", &b[0..3])));
        }
    }
    // "each table can address every cluster": FAT32 cluster numbers from 0x0FFFFFF7 on are the bad-cluster mark and
    // the end-of-chain range, so the highest cluster number (count + 1) must stay below
    if g.width == 32 && g.clusters > 0x0FFF_FFF5 {
        return Some(("C06/accepted/fat32-cluster-numbers-reach-reserved-values".into(), format!("{rec:?} total {total}: {} clusters", g.clusters)));
    }
    // a FAT12/16 volume without a single root-directory slot is not a valid empty volume (it cannot hold an entry,
    // and a zero root-entry count is how drivers recognise FAT32)
    if g.width != 32 && g.root_entries == 0 {
        return Some(("C06/accepted/fat12-16-without-root-directory".into(), format!("{rec:?} total {total}")));
    }
    if g.width == 32 && (g.backup_sector == 0 || g.fsinfo_sector == 0) {
        return Some(("C06/accepted/fat32-without-backup-or-info-sector".into(), format!("{rec:?} total {total}: backup {} info {}", g.backup_sector, g.fsinfo_sector)));
    }
    // extended boot record: signature 0x29 (the id / label / type fields are only valid with it), the type string names
    // the width the cluster count gives, the volume is born clean (status bits 0/1), FAT32: version 0, mirroring on
    {
        let (o_sig, o_type, o_status) = if g.width == 32 { (66usize, 82usize, 65usize) } else { (38, 54, 37) };
        let want_type: &[u8; 8] = match g.width { 12 => b"FAT12   ", 16 => b"FAT16   ", _ => b"FAT32   " };
        if b[o_sig] != 0x29 || &b[o_type..o_type + 8] != want_type || b[o_status] & 3 != 0 || (g.width == 32 && (g.fs_version != 0 || g.ext_flags & 0x80 != 0)) {
            return Some((
                "C06/accepted/extended-boot-record-invalid".into(),
                format!("{rec:?} total {total}: width {} signature {:#04x} type {:?} status {:#04x} version {} flags {:#x}", g.width, b[o_sig], String::from_utf8_lossy(&b[o_type..o_type + 8]), b[o_status], g.fs_version, g.ext_flags),
            ));
        }
    }
    // requested volume id / label arrive in the extended boot record
    let (o_id, o_label) = if g.width == 32 { (67usize, 71usize) } else { (39, 43) };
    if rec.vid && b[o_id..o_id + 4] != [0xFF; 4] {
        return Some(("C06/accepted/volume-id-differs".into(), format!("{rec:?} total {total}: {:02x?}", &b[o_id..o_id + 4])));
    }
    if rec.vid {
        // media byte (also the low byte of FAT entry 0, compared with this field by the full-format check), geometry
        // hints and drive number arrive as given
        let o_drive = if g.width == 32 { 64usize } else { 36 };
        if b[21] != 0xF0 || b[24..26] != 32u16.to_le_bytes() || b[26..28] != 16u16.to_le_bytes() || b[o_drive] != 0x01 {
            return Some((
                "C06/accepted/pass-through-field-differs".into(),
                format!("{rec:?} total {total}: media {:#04x} sectors/track {:02x?} heads {:02x?} drive {:#04x}", b[21], &b[24..26], &b[26..28], b[o_drive]),
            ));
        }
    }
    let want_label: &[u8; 11] = if rec.label { b"VERIF LABEL" } else { b"NO NAME    " };
    if &b[o_label..o_label + 11] != want_label {
        return Some(("C06/accepted/boot-sector-label-differs".into(), format!("{rec:?} total {total}: {:?}", String::from_utf8_lossy(&b[o_label..o_label + 11]))));
    }
    None
}

/// the boot-sector hook rejected the request: the real `format_volume` must reject it with the same error kind
/// (binds the hook to the function it stands for; a request the real function accepts is judged in full)
fn judge_rejected(rec: &Rec, total: u32) -> Option<(String, String)> {
    let len = total as u64 * rec.bps as u64;
    let base = Arc::new(Base::Proc { len, f: Box::new(move |_, out| out.fill(0)) });
    let (st, mut dev) = new_dev(&base);
    st.borrow_mut().sparse_zero = true;
    st.borrow_mut().arm(None, Some(100_000));
    let o = rec.opts().total_sectors(total);
    let r = sess::guarded(|| fatfs::format_volume(&mut dev, o).map_err(sess::ek));
    let ctx = format!("{rec:?} total {total}");
    let hit = st.borrow().budget_hit;
    match r {
        Err(p) => Some((format!("C06/panic/format_volume/{}", panic_class(&p)), format!("{ctx}: {p}"))),
        Ok(Err(ErrKind::InvalidInput)) => None,
        Ok(Err(_)) | Ok(Ok(())) if hit => Some(("C06/machinery/hook-rejects-but-format-volume-writes".into(), ctx)),
        Ok(Err(e)) => Some((format!("C06/rejected-with-{}", e.name()), ctx)),
        Ok(Ok(())) => Some(("C06/machinery/hook-rejects-but-format-volume-accepts".into(), ctx)),
    }
}

/// how the real format is driven: how the storage answers, and whether the size is passed or taken from the storage
#[derive(Clone, Copy, Debug)]
pub struct Mode {
    pub short: Short,
    /// Some(r): `total_sectors` is NOT set; the storage is `total * bps + r` bytes long
    pub auto_size_extra: Option<u64>,
}

pub const EXACT: Mode = Mode { short: Short::Exact, auto_size_extra: None };

fn judge_full(rec: &Rec, total: u32) -> Option<(String, String)> {
    judge_full_mode(rec, total, EXACT, &AtomicU64::new(0))
}

/// full format on a sparse device + every check on the resulting image; `ok_count` counts formats that succeeded
fn judge_full_mode(rec: &Rec, total: u32, mode: Mode, ok_count: &AtomicU64) -> Option<(String, String)> {
    let len = total as u64 * rec.bps as u64 + mode.auto_size_extra.unwrap_or(0);
    // small volumes are formatted over garbage (0xA5): whatever formatting must initialise but does not shows up;
    // huge ones over zeros (their zero-filled FATs would not fit in memory otherwise)
    let garbage = len <= 2 << 30;
    let base = Arc::new(Base::Proc { len, f: Box::new(move |_, out| out.fill(if garbage { 0xA5 } else { 0 })) });
    let (st, mut dev) = new_dev(&base);
    st.borrow_mut().sparse_zero = !garbage;
    st.borrow_mut().short = mode.short;
    st.borrow_mut().arm(None, Some(4_000_000_000));
    let o = if mode.auto_size_extra.is_some() { rec.opts() } else { rec.opts().total_sectors(total) };
    let r = sess::guarded(|| fatfs::format_volume(&mut dev, o).map_err(sess::ek));
    let ctx = format!("{rec:?} total {total} {mode:?}");
    match r {
        Err(p) => return Some((format!("C06/panic/format_volume/{}", panic_class(&p)), format!("{ctx}: {p}"))),
        // the layout computation (boot-sector hook) accepted this request, so it is satisfiable
        Ok(Err(ErrKind::InvalidInput)) => {
            let sig = if rec.is_default() && total >= 42 { "C06/default-options/rejected" } else { "C06/layout-accepted-but-format-volume-rejects" };
            return Some((sig.into(), ctx));
        }
        Ok(Err(e)) => return Some((format!("C06/rejected-with-{}", e.name()), ctx)),
        Ok(Ok(())) => {}
    }
    ok_count.fetch_add(1, Ordering::Relaxed);
    let s = st.borrow();
    if s.oob_write || s.max_addr > len {
        return Some(("C06/format-wrote-beyond-declared-size".into(), ctx));
    }
    let boot: [u8; 512] = s.read_vec(0, 512).try_into().unwrap();
    if let Some(v) = judge_boot(rec, total, &boot) {
        return Some(v);
    }
    let g = decoder::parse_raw(&boot).unwrap();
    let small = g.clusters <= 300_000;
    // large volumes: the entries of the first clusters, the last ones, and every cluster number from 0x0FFFFFF0 on
    let mut cands: Vec<u32> = vec![2u32, 3, 4, g.max_cluster() - 1, g.max_cluster()];
    cands.extend((0x0FFF_FFF0u32..=0x0FFF_FFF6).filter(|c| *c <= g.max_cluster()));
    cands.sort_unstable();
    cands.dedup();
    let d = decoder::decode_with_geo(&s, &g, &DecodeOpts { candidates: if small { None } else { Some(&cands[..]) }, ..Default::default() });
    let d = match d {
        Ok(d) => d,
        Err(e) => return Some(("C06/accepted/undecodable".into(), format!("{ctx}: {e}"))),
    };
    if !d.findings.is_empty() {
        return Some(("C06/accepted/invariant-findings".into(), format!("{ctx}: {:?}", d.findings)));
    }
    let root = &d.dirs[0];
    let want_label: Vec<[u8; 11]> = if rec.label { vec![*b"VERIF LABEL"] } else { vec![] };
    let got_label: Vec<[u8; 11]> = root.labels.iter().map(|l| l.1).collect();
    if !root.entries.is_empty() || got_label != want_label {
        return Some(("C06/accepted/root-not-empty".into(), format!("{ctx}: entries {} labels {:?}", root.entries.len(), got_label)));
    }
    let ones_media: u32 = match g.width {
        12 => 0xF00 | g.media as u32,
        16 => 0xFF00 | g.media as u32,
        _ => 0x0FFF_FF00 | g.media as u32,
    };
    if d.fat0 & 0x0FFF_FFFF != ones_media || d.fat1 & 0x0FFF_FFFF < g.eoc_min() {
        return Some(("C06/accepted/reserved-fat-entries".into(), format!("{ctx}: FAT[0]={:#x} FAT[1]={:#x}", d.fat0, d.fat1)));
    }
    let expect_free = if g.width == 32 { g.clusters - 1 } else { g.clusters };
    if small && (d.free != expect_free || d.bad != 0) {
        return Some(("C06/accepted/data-entries-not-free".into(), format!("{ctx}: free {} of {} bad {}", d.free, g.clusters, d.bad)));
    }
    // padding entries non-free; all copies identical
    let f = decoder::FatView::new(&s, &g, 0);
    if !small {
        for c in &cands {
            if (g.width != 32 || *c != g.root_cluster) && f.get(*c) != 0 {
                return Some(("C06/accepted/data-entries-not-free".into(), format!("{ctx}: entry of cluster {c:#x} (of {:#x} clusters) is {:#x}", g.clusters, f.get(*c))));
            }
        }
    }
    // sectors larger than 512 bytes: the rest of the boot sector (and its copy / the information sector) is initialised
    if garbage && g.bps > 512 {
        let mut secs = vec![0u64];
        if g.width == 32 {
            secs.push(g.backup_sector as u64);
            secs.push(g.fsinfo_sector as u64);
        }
        for sec in secs {
            let tail = s.read_vec(sec * g.bps as u64 + 512, g.bps as usize - 512);
            if let Some(p) = tail.iter().position(|b| *b != 0) {
                return Some(("C06/accepted/sector-tail-not-zeroed".into(), format!("{ctx}: byte {} of sector {sec} is {:#04x}", 512 + p, tail[p])));
            }
        }
    }
    if mode.auto_size_extra.is_some() && g.total_sectors != total as u64 {
        return Some(("C06/accepted/size-not-taken-from-storage".into(), format!("{ctx}: storage holds {total} whole sectors, volume declares {}", g.total_sectors)));
    }
    // (what the entries behind the last cluster hold is not prescribed: zero is what the specification asks of a
    // formatter, the library writes end-of-chain marks; C10 checks that they are never handed out)
    if g.fat_bytes() <= 8 << 20 {
        let c0 = s.read_vec(g.fat_off(0), g.fat_bytes() as usize);
        for c in 1..g.nfats {
            if s.read_vec(g.fat_off(c), g.fat_bytes() as usize) != c0 {
                return Some(("C06/accepted/fat-copies-differ".into(), ctx));
            }
        }
    }
    // the whole root directory (fixed area, or the FAT32 root cluster) is initialised
    {
        let (off, n) = if g.width == 32 { (g.cluster_off(g.root_cluster), g.cluster_size()) } else { (g.root_off(), g.root_dir_sectors * g.bps as u64) };
        let bytes = s.read_vec(off, n as usize);
        let start = if rec.label { 32 } else { 0 };
        if let Some(p) = bytes[start..].iter().position(|b| *b != 0) {
            return Some(("C06/accepted/root-directory-not-zeroed".into(), format!("{ctx}: byte {} of the root directory area is {:#04x}", p + start, bytes[p + start])));
        }
    }
    if g.width == 32 {
        let bs = g.bps as u64;
        let backup = s.read_vec(g.backup_sector as u64 * bs, g.bps as usize);
        let main = s.read_vec(0, g.bps as usize);
        if backup != main {
            return Some(("C06/accepted/backup-boot-differs".into(), ctx));
        }
        match decoder::fsinfo(&s, &g) {
            // (the next-free hint is a hint: unknown, or any cluster number of the volume)
            Some((true, true, true, free, next)) if free as u64 == g.clusters - 1 && (next == 0xFFFF_FFFF || (next >= 2 && next as u64 <= g.clusters + 1)) => {}
            other => return Some(("C06/accepted/fsinfo".into(), format!("{ctx}: {other:?}"))),
        }
    }
    drop(s);
    // mount + stats
    let dev2 = harness::dev::MemDev::new(st.clone());
    let r = sess::guarded(|| -> Result<(u32, u32, u8), ErrKind> {
        let fs = fatfs::FileSystem::new(dev2, fatfs::FsOptions::new()).map_err(sess::ek)?;
        let stt = if small || g.width == 32 { fs.stats().map_err(sess::ek)? } else { return Ok((0, 0, 0)) };
        let w = match fs.fat_type() {
            FatType::Fat12 => 12,
            FatType::Fat16 => 16,
            FatType::Fat32 => 32,
        };
        Ok((stt.free_clusters(), stt.total_clusters(), w))
    });
    match r {
        Err(p) => Some(("C06/accepted/mount-panics".into(), format!("{ctx}: {p}"))),
        Ok(Err(e)) => Some(("C06/accepted/does-not-mount".into(), format!("{ctx}: {e:?}"))),
        Ok(Ok((free, tot, w))) => {
            if w != 0 && (free as u64 != expect_free || tot as u64 != g.clusters || w != g.width) {
                Some(("C06/accepted/stats-differ".into(), format!("{ctx}: free {free} total {tot} width {w}; expected {expect_free} {} {}", g.clusters, g.width)))
            } else {
                None
            }
        }
    }
}

pub fn run(tier: &str) -> i32 {
    let th = is_thorough(tier);
    let t0 = Instant::now();
    let deadline = t0 + wall_budget(tier);
    let recs = grid(th);
    let evals = AtomicU64::new(0);
    let fulls = AtomicU64::new(0);
    let rejected_real = AtomicU64::new(0);
    let fulls_short = AtomicU64::new(0);
    let fulls_auto = AtomicU64::new(0);
    let capped = AtomicU64::new(0);
    let results: Vec<(Vec<(String, String)>, BTreeMap<String, u64>)> = recs
        .par_iter()
        .map(|rec| {
            let mut v: Vec<(String, String)> = Vec::new();
            let mut classes: BTreeMap<String, u64> = BTreeMap::new();
            if Instant::now() > deadline {
                capped.fetch_add(1, Ordering::Relaxed);
                return (v, classes);
            }
            let szs = sizes(rec);
            let mut full_budget = if th { 40 } else { 10 };
            // volumes between 64 MiB and 1 GiB (the smallest FAT32 volumes with clusters larger than a sector)
            let mut big_budget = if th { 6 } else { 2 };
            // one FAT16 and one FAT32 volume per record also on short-transferring storages
            let mut short_w16 = 1;
            let mut short_w32 = 1;
            for &t in &szs {
                evals.fetch_add(1, Ordering::Relaxed);
                let r = hook(rec, t);
                let class = match &r {
                    Err(_) => "panic".to_string(),
                    Ok(Err(e)) => format!("rejected-{}", e.name()),
                    Ok(Ok(b)) => format!("accepted-fat{}", decoder::parse_raw(b).map(|g| g.width).unwrap_or(0)),
                };
                *classes.entry(format!("bps{}-ft{}-{class}", rec.bps, ftn(rec.ft))).or_default() += 1;
                match r {
                    Err(p) => v.push((format!("C06/panic/boot-sector-computation/{}", panic_class(&p)), format!("{rec:?} total {t}: {p}"))),
                    Ok(Err(ErrKind::InvalidInput)) => {
                        if rec.is_default() && t >= 42 {
                            v.push(("C06/default-options/rejected".into(), format!("default options, {t} sectors rejected")));
                        }
                        rejected_real.fetch_add(1, Ordering::Relaxed);
                        if let Some(x) = judge_rejected(rec, t) {
                            v.push(x);
                        }
                    }
                    Ok(Err(e)) => v.push((format!("C06/rejected-with-{}", e.name()), format!("{rec:?} total {t}"))),
                    Ok(Ok(b)) => {
                        if let Some(x) = judge_boot(rec, t, &b) {
                            v.push(x);
                        }
                        // full format: all small volumes, and a budget of larger ones per record
                        let bytes = t as u64 * rec.bps as u64;
                        let do_full = bytes <= 2 << 20
                            || (bytes <= 64 << 20 && full_budget > 0 && { full_budget -= 1; true })
                            || (bytes > 64 << 20 && bytes <= 1 << 30 && big_budget > 0 && { big_budget -= 1; true });
                        if do_full && Instant::now() >= deadline {
                            capped.fetch_add(1, Ordering::Relaxed);
                        }
                        if do_full && Instant::now() < deadline {
                            if let Some(x) = judge_full_mode(rec, t, EXACT, &fulls) {
                                v.push(x);
                            }
                            // the smallest volumes also on storages that accept only part of each transfer
                            let w = decoder::parse_raw(&b).map(|g| g.width).unwrap_or(0);
                            let extra_short = bytes > 512 << 10 && ((w == 16 && short_w16 > 0 && { short_w16 -= 1; true }) || (w == 32 && short_w32 > 0 && { short_w32 -= 1; true }));
                            if bytes <= 512 << 10 || extra_short {
                                for short in [Short::Always, Short::Block(7)] {
                                    if let Some(x) = judge_full_mode(rec, t, Mode { short, auto_size_extra: None }, &fulls_short) {
                                        v.push(x);
                                    }
                                }
                            }
                        }
                    }
                }
            }
            v.sort();
            v.dedup_by(|a, b| a.0 == b.0);
            (v, classes)
        })
        .collect();
    let mut rep = Report::new("C06", tier, "exploration");
    let mut all: BTreeMap<String, (String, u64)> = BTreeMap::new();
    let mut classes: BTreeMap<String, u64> = BTreeMap::new();
    for (v, c) in results {
        for (sig, msg) in v {
            all.entry(sig).or_insert((msg, 0)).1 += 1;
        }
        for (k, n) in c {
            *classes.entry(k).or_default() += n;
        }
    }
    // huge volumes through the full path (default options and forced FAT32)
    let huge: Vec<(Rec, u32)> = {
        let d = Rec { bps: 512, bpc: None, ft: None, fats: 2, root: 512, label: false, vid: false };
        let mut h = vec![(d.clone(), 1 << 21), (d.clone(), (1 << 23) + 1), (d.clone(), 1 << 26), (d.clone(), u32::MAX)];
        h.push((Rec { bps: 4096, ..d.clone() }, 1 << 24));
        h.push((Rec { ft: Some(FatType::Fat32), bpc: Some(512), ..d.clone() }, 1 << 22));
        // the largest FAT32 cluster counts (512-byte clusters): cluster numbers 0x0FFFFFF0..=0x0FFFFFF5 are ordinary
        // data clusters there. The sizes come from the accept/reject edge of the layout computation
        {
            let top = Rec { ft: Some(FatType::Fat32), bpc: Some(512), ..d.clone() };
            let edge: Vec<u32> = sizes(&top).into_iter().filter(|t| *t > 270_000_000 && *t < 275_000_000).collect();
            for t in edge.iter().rev().filter(|t| matches!(hook(&top, **t), Ok(Ok(_)))).take(if th { 3 } else { 1 }) {
                h.push((top.clone(), *t));
            }
        }
        if th {
            h.push((Rec { bps: 4096, ..d.clone() }, u32::MAX));
            h.push((d.clone(), (1 << 31) + 12345));
        }
        h
    };
    let huge_res: Vec<Option<(String, String)>> = huge
        .par_iter()
        .map(|(r, t)| {
            if Instant::now() < deadline {
                // a request that the layout computation itself turns down (other than default options) goes through
                // the rejected-request check: the invalid-input error and no write
                if !r.is_default() && matches!(hook(r, *t), Ok(Err(ErrKind::InvalidInput))) {
                    judge_rejected(r, *t)
                } else {
                    judge_full_mode(r, *t, EXACT, &fulls)
                }
            } else {
                capped.fetch_add(1, Ordering::Relaxed);
                None
            }
        })
        .collect();
    for x in huge_res.into_iter().flatten() {
        all.entry(x.0).or_insert((x.1, 0)).1 += 1;
    }
    // the size taken from the storage (total_sectors not set: the literal "default options"): whole and partial last
    // sectors, and storages at / beyond the 32-bit sector limit
    {
        let d = Rec { bps: 512, bpc: None, ft: None, fats: 2, root: 512, label: false, vid: false };
        let recs = [d.clone(), Rec { bps: 4096, ..d.clone() }, Rec { ft: Some(FatType::Fat32), ..d.clone() }, Rec { fats: 1, root: 16, label: true, vid: true, ..d.clone() }];
        let mut cases: Vec<(Rec, u32, u64)> = Vec::new();
        for r in &recs {
            for t in [42u32, 43, 100, 2880, 8401, 66_000, 70_000, 140_000, 1 << 21] {
                for extra in [0u64, 1, r.bps as u64 - 1] {
                    cases.push((r.clone(), t, extra));
                }
            }
        }
        cases.push((d.clone(), u32::MAX, 0));
        cases.push((d.clone(), u32::MAX, 511));
        cases.push((d.clone(), 10 << 20, 0)); // 5 GiB
        let res: Vec<Option<(String, String)>> = cases
            .par_iter()
            .map(|(r, t, extra)| {
                if Instant::now() > deadline {
                    capped.fetch_add(1, Ordering::Relaxed);
                    return None;
                }
                match hook(r, *t) {
                    Ok(Ok(_)) => judge_full_mode(r, *t, Mode { short: Short::Exact, auto_size_extra: Some(*extra) }, &fulls_auto),
                    _ => None,
                }
            })
            .collect();
        for x in res.into_iter().flatten() {
            all.entry(x.0).or_insert((x.1, 0)).1 += 1;
        }
        // storages of 2^32 sectors and more: rejected with InvalidInput, or formatted with a size that is really there
        for sectors in [1u64 << 32, (1u64 << 32) + 204_800, (1u64 << 33) + 1] {
            let len = sectors * 512;
            let base = Arc::new(Base::Proc { len, f: Box::new(move |_, out| out.fill(0)) });
            let (st, mut dev) = new_dev(&base);
            st.borrow_mut().sparse_zero = true;
            st.borrow_mut().arm(None, Some(4_000_000_000));
            let r = sess::guarded(|| fatfs::format_volume(&mut dev, FormatVolumeOptions::new()).map_err(sess::ek));
            fulls_auto.fetch_add(1, Ordering::Relaxed);
            let ctx = format!("default options on a storage of {sectors} sectors");
            let x = match r {
                Err(p) => Some((format!("C06/panic/format_volume/{}", panic_class(&p)), format!("{ctx}: {p}"))),
                Ok(Err(ErrKind::InvalidInput)) => None,
                Ok(Err(e)) => Some((format!("C06/rejected-with-{}", e.name()), ctx)),
                Ok(Ok(())) => {
                    let b: [u8; 512] = st.borrow().read_vec(0, 512).try_into().unwrap();
                    let declared = decoder::parse_raw(&b).map(|g| g.total_sectors).unwrap_or(0);
                    Some(("C06/accepted/size-not-taken-from-storage".into(), format!("{ctx}: accepted, volume declares {declared} sectors")))
                }
            };
            if let Some(x) = x {
                all.entry(x.0).or_insert((x.1, 0)).1 += 1;
            }
        }
    }
    // thorough: the whole 32-bit range for default options and forced widths (boot-sector hook)
    let mut sweep = json!(null);
    if th {
        let sweeps: Vec<(&str, Rec)> = vec![
            ("default", Rec { bps: 512, bpc: None, ft: None, fats: 2, root: 512, label: false, vid: false }),
            ("forced-fat12", Rec { bps: 512, bpc: None, ft: Some(FatType::Fat12), fats: 2, root: 512, label: false, vid: false }),
            ("forced-fat16", Rec { bps: 512, bpc: None, ft: Some(FatType::Fat16), fats: 2, root: 512, label: false, vid: false }),
            ("forced-fat32", Rec { bps: 512, bpc: None, ft: Some(FatType::Fat32), fats: 2, root: 512, label: false, vid: false }),
        ];
        let mut sw = Vec::new();
        for (name, rec) in sweeps {
            let chunks: Vec<u64> = (0..(1u64 << 32)).step_by(1 << 22).collect();
            let done = AtomicU64::new(0);
            let res: Vec<Vec<(String, String)>> = chunks
                .par_iter()
                .map(|&start| {
                    let mut v = Vec::new();
                    if Instant::now() > deadline {
                        return v;
                    }
                    let o = rec.opts();
                    for t in start..(start + (1 << 22)).min(1 << 32) {
                        let t = t as u32;
                        let r = sess::guarded(|| fatfs::verif::boot_sector_bytes(&o, t).map_err(|e| sess::kind_of(&e)));
                        match r {
                            Err(p) => {
                                v.push((format!("C06/panic/boot-sector-computation/{}", panic_class(&p)), format!("{name} total {t}: {p}")));
                                break;
                            }
                            Ok(Err(ErrKind::InvalidInput)) => {
                                if name == "default" && t >= 42 {
                                    v.push(("C06/default-options/rejected".to_string(), format!("default options, {t} sectors rejected")));
                                    break;
                                }
                            }
                            Ok(Err(e)) => v.push((format!("C06/rejected-with-{}", e.name()), format!("{name} total {t}"))),
                            Ok(Ok(b)) => {
                                if let Some(x) = judge_boot(&rec, t, &b) {
                                    v.push(x);
                                    break;
                                }
                            }
                        }
                    }
                    done.fetch_add(1, Ordering::Relaxed);
                    v
                })
                .collect();
            let completed = done.load(Ordering::Relaxed) == chunks.len() as u64 && Instant::now() < deadline;
            evals.fetch_add(done.load(Ordering::Relaxed) << 22, Ordering::Relaxed);
            for x in res.into_iter().flatten() {
                all.entry(x.0).or_insert((x.1, 0)).1 += 1;
            }
            sw.push(json!({"options": name, "sizes": "0..=4294967295", "chunks_done": done.load(Ordering::Relaxed), "chunks": chunks.len(), "complete": completed}));
        }
        sweep = json!(sw);
    }
    for (sig, (msg, n)) in all {
        let mut v = violation("C06", &sig, &msg, "format-grid");
        v.count = n;
        rep.add(v, json!({"check": "C06", "case": msg}));
    }
    let ncap = capped.load(Ordering::Relaxed);
    rep.coverage = json!({
        "evaluations": evals.load(Ordering::Relaxed),
        "distinct_nontrivial": classes.len(),
        "rule": "full product of the declared option grid (sector size x cluster size x forced width x FAT count x root entries x label x volume id) x size set (0..=100, 2^k-1/2^k/2^k+1, u32::MAX, +-2 sectors around every heuristic threshold, +-2 around every size where the produced cluster count crosses 4085 / 65525, +-2 around every accept/reject edge of the layout computation); full_format_cases counts formats that succeeded; every case through the boot-sector hook, small volumes and a per-record budget of larger ones through the full format_volume + independent decode + mount; distinct_nontrivial = distinct (sector size, forced width, outcome class) triples observed",
        "samples": [
            {"options": "bps 512, defaults", "total_sectors": 42, "mode": "full format + decode + mount"},
            {"options": "bps 4096, bpc 512 (cluster smaller than sector)", "total_sectors": 4096, "mode": "boot-sector hook"},
            {"options": "defaults", "total_sectors": 4294967295u32, "mode": "full format on a sparse device"}
        ],
        "exhaustive": ncap == 0,
        "records": recs.len(),
        "full_format_cases": fulls.load(Ordering::Relaxed),
        "full_formats_on_short_transferring_storage": fulls_short.load(Ordering::Relaxed),
        "formats_with_size_taken_from_storage": fulls_auto.load(Ordering::Relaxed),
        "rejected_requests_replayed_on_format_volume": rejected_real.load(Ordering::Relaxed),
        "outcome_classes": classes,
        "records_or_full_formats_skipped_by_deadline": ncap,
        "full_range_sweeps": sweep,
        "technique": "bounded-exhaustive enumeration of the format-option grid on the real crate, judged by the independent geometry parser / decoder",
    });
    rep.assumptions = vec!["option values off the declared grid are not covered (media / heads / sectors-per-track / drive number: default values, and one non-default set together with the volume id)".into()];
    rep.wall_s = t0.elapsed().as_secs_f64();
    rep.finish()
}
