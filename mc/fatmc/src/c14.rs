//! C14 — flushed file data survives a power cut. Crash enumeration over the device write log.

use std::cell::Cell;
use std::collections::BTreeMap;
use std::rc::Rc;
use std::sync::atomic::{AtomicU64, Ordering};
use std::sync::{Arc, Mutex};

use fatfs::FatType;
use harness::dev::{new_dev, DevState, Kind, MemDev, Rec};
use harness::explore::Checker;
use harness::sess::{self, Cfg, DirRef, Exec, Op, Out, Plan};
use harness::vol;
use serde_json::json;

use crate::common::{is_thorough, ExpSpec};

#[derive(Default)]
pub struct Counters {
    pub crash_images: AtomicU64,
    pub durable_nodes: AtomicU64,
    pub classes: Mutex<BTreeMap<String, u64>>,
    pub samples: Mutex<Vec<serde_json::Value>>,
}

pub struct C14 {
    pub ctr: Arc<Counters>,
    pub subsets: bool,
}

fn modifies_f(op: &Op) -> bool {
    matches!(op, Op::Write { h: 0, .. } | Op::WriteAll { h: 0, .. } | Op::Truncate { h: 0 } | Op::Fill { h: 0, .. })
}

/// rebuild the image from the base and a selection of the logged writes
fn image_from(cfg: &Cfg, log: &[Rec], keep: &dyn Fn(usize) -> bool) -> DevState {
    let mut st = DevState::new(cfg.base.clone());
    for (i, r) in log.iter().enumerate() {
        if r.kind == Kind::Write && keep(i) {
            if let Some(d) = &r.data {
                st.write_at(r.off, d);
            }
        }
    }
    st
}

fn check_image(cfg: &Cfg, st: DevState, want: &[u8], what: &str) -> Option<(String, String)> {
    check_image_at(cfg, st, want, what, &["f"])
}

/// `names`: the names under which the flushed file may be found (two while a rename of it is in flight)
fn check_image_at(cfg: &Cfg, st: DevState, want: &[u8], what: &str, names: &[&str]) -> Option<(String, String)> {
    // independent decode
    let dec = sess::decode_dev(&st, cfg, &[]);
    let judge = |d: &harness::decoder::Decoded, name: &str| -> Option<String> {
        match d.find_entry(&format!("/{name}")) {
            Some(e) if !e.is_dir() => {
                if e.size as usize != want.len() {
                    Some(format!("decoded size {} != flushed size {}", e.size, want.len()))
                } else if e.content.as_deref() != Some(want) {
                    Some("decoded content differs from flushed content".to_string())
                } else if !e.chain_ok {
                    Some("the cluster chain of the flushed file is broken".to_string())
                } else {
                    // the clusters of the flushed file are marked used: nothing else can be given them later
                    let tag = format!("of file:/{name} ");
                    d.findings.iter().find(|f| f.sig.starts_with("I1/") && f.msg.contains(&tag)).map(|f| format!("allocation of the flushed file: {}", f.msg))
                }
            }
            _ => Some(format!("file {name} not found by the independent decoder")),
        }
    };
    let dec_verdict = match &dec {
        Ok(d) => {
            let vs: Vec<Option<String>> = names.iter().map(|n| judge(d, n)).collect();
            if vs.iter().any(Option::is_none) {
                None
            } else {
                vs.into_iter().next().flatten()
            }
        }
        Err(e) => Some(format!("crash image does not decode: {e}")),
    };
    if let Some(m) = dec_verdict {
        return Some((format!("C14/{what}/decoder"), m));
    }
    // remount with the library
    let st = Rc::new(std::cell::RefCell::new(st));
    let ctr = Rc::new(Cell::new(0));
    let r = sess::guarded(|| -> Result<Vec<u8>, String> {
        let fs = sess::mount(MemDev::new(st.clone()), cfg, &ctr).map_err(|e| format!("remount failed: {:?}", sess::ek(e)))?;
        let res = (|| {
            let mut last = Err("no name".to_string());
            for name in names {
                last = (|| {
                    let mut f = fs.root_dir().open_file(name).map_err(|e| format!("open {name} failed: {:?}", sess::ek(e)))?;
                    sess::read_all(&mut f, 1 << 24).map_err(|e| format!("read {name} failed: {e:?}"))
                })();
                if matches!(&last, Ok(d) if d == want) {
                    break;
                }
            }
            last
        })();
        drop(fs);
        res
    });
    match r {
        Err(p) => Some((format!("C14/{what}/remount-panic"), p)),
        Ok(Err(m)) => Some((format!("C14/{what}/remount"), m)),
        Ok(Ok(data)) => {
            if data != want {
                Some((format!("C14/{what}/remount-content"), format!("read {} bytes, flushed {} bytes", data.len(), want.len())))
            } else {
                None
            }
        }
    }
}

impl Checker for C14 {
    fn plan(&self) -> Plan {
        Plan { log_all: true, log_data: true, suffix: false, pre_decode: false, ..Default::default() }
    }

    fn check(&self, cfg: &Cfg, ops: &[Op], ex: &Exec) -> Vec<(String, String)> {
        let mut v = Vec::new();
        if ex.panic.is_some() || ops.is_empty() {
            return v;
        }
        // durability point: last successful flush/drop of handle 0 (always on f), f not modified afterwards
        let mut p = None;
        for (i, op) in ops.iter().enumerate() {
            let ok = matches!(ex.outs.get(i), Some(Ok(_)));
            if matches!(op, Op::Flush { h: 0 } | Op::DropFile { h: 0 }) && ok {
                p = Some(i);
            }
            if modifies_f(op) {
                let accepted = match ex.outs.get(i) {
                    Some(Ok(Out::Count(n))) => *n > 0,
                    Some(Ok(Out::Progress { accepted, .. })) => *accepted > 0,
                    Some(Ok(_)) => true,
                    _ => true,
                };
                if accepted {
                    p = None;
                }
            }
        }
        // a write to f that failed because of one storage fault, retried by the caller, then flushed; afterwards
        // another file is created and written. f must keep exactly the flushed content in the final image.
        if let Some(Op::WriteAll { h: 0, len }) = ops.last() {
            let n = ops.len();
            if n <= 4 && ex.calls_last <= 400 && matches!(ex.outs.last(), Some(Ok(Out::Progress { err: None, .. }))) {
                let mut ops2 = ops.to_vec();
                ops2.push(Op::WriteAll { h: 0, len: *len });
                ops2.push(Op::Flush { h: 0 });
                ops2.push(Op::CreateFile { base: DirRef::Root, path: "g".into(), keep: Some(1) });
                ops2.push(Op::WriteAll { h: 1, len: 2 * 512 + 1 });
                ops2.push(Op::Flush { h: 1 });
                // the same fault, but the write reports complete success although a device call failed (the fault was
                // absorbed): the caller has no reason to retry, flushes, and the flushed content must be there
                let mut ops3 = ops.to_vec();
                ops3.push(Op::Flush { h: 0 });
                for k in 1..=ex.calls_last {
                    let plan = Plan { fault: Some((k, 0x00FA_0000 + k as u32)), fault_op: Some(n - 1), ..self.plan() };
                    let fx = sess::run(cfg, &ops3, &plan);
                    if fx.panic.is_some() || fx.fired_early.is_none() {
                        continue;
                    }
                    let absorbed = matches!(fx.outs.get(n - 1), Some(Ok(Out::Progress { accepted, err: None })) if *accepted == *len as u64);
                    if !absorbed || !matches!(fx.outs.get(n), Some(Ok(_))) {
                        continue;
                    }
                    let Some(fnode) = fx.model.nodes.values().find(|x| x.given == "f") else { continue };
                    self.ctr.crash_images.fetch_add(1, Ordering::Relaxed);
                    let want3 = fnode.data.clone();
                    let r = check_image(cfg, image_from(cfg, &fx.log, &|_| true), &want3, "write-ok-despite-storage-fault-then-flushed");
                    *self.ctr.classes.lock().unwrap().entry(format!("write-ok-despite-storage-fault:{}", if r.is_some() { "LOST" } else { "intact" })).or_default() += 1;
                    if let Some((sig, msg)) = r {
                        v.push((sig, format!("{msg} [device call {k}/{} of {:?} failed once, the call still reported complete success; flushed]", ex.calls_last, ops[n - 1])));
                        break;
                    }
                }
                for k in 1..=ex.calls_last {
                    let plan = Plan { fault: Some((k, 0x00FB_0000 + k as u32)), fault_op: Some(n - 1), ..self.plan() };
                    let fx = sess::run(cfg, &ops2, &plan);
                    if fx.panic.is_some() || fx.fired_early.is_none() {
                        continue;
                    }
                    // the faulted write reports how much it accepted; the model follows it. Only histories in which
                    // the retry and both flushes succeeded are judged.
                    let ok_after = (n..ops2.len()).all(|i| match fx.outs.get(i) {
                        Some(Ok(Out::Progress { err, .. })) => err.is_none(),
                        Some(Ok(_)) => true,
                        _ => false,
                    });
                    if !ok_after {
                        continue;
                    }
                    let Some(fnode) = fx.model.nodes.values().find(|x| x.given == "f") else { continue };
                    self.ctr.crash_images.fetch_add(1, Ordering::Relaxed);
                    let want2 = fnode.data.clone();
                    let r = check_image(cfg, image_from(cfg, &fx.log, &|_| true), &want2, "write-retried-after-storage-fault");
                    *self.ctr.classes.lock().unwrap().entry(format!("write-retried-after-storage-fault:{}", if r.is_some() { "LOST" } else { "intact" })).or_default() += 1;
                    if let Some((sig, msg)) = r {
                        v.push((sig, format!("{msg} [device call {k}/{} of {:?} failed once; retried, flushed; then g was created and written]", ex.calls_last, ops[n - 1])));
                        break;
                    }
                }
            }
        }
        // the call that produced the handle (create_file / open_file of f) absorbs a storage fault and
        // reports success: the caller writes, flushes; the flushed content must be found under the name
        {
            if let Some(Op::CreateFile { path, keep: Some(0), .. } | Op::OpenFile { path, keep: Some(0), .. }) = ops.last() {
                let n = ops.len();
                if path == "f" && n <= 4 && ex.calls_last <= 400 && matches!(ex.outs.last(), Some(Ok(_))) {
                    let mut ops4 = ops.to_vec();
                    ops4.push(Op::WriteAll { h: 0, len: 513 });
                    ops4.push(Op::Flush { h: 0 });
                    for k in 1..=ex.calls_last {
                        let plan = Plan { fault: Some((k, 0x00FE_0000 + k as u32)), fault_op: Some(n - 1), ..self.plan() };
                        let fx = sess::run(cfg, &ops4, &plan);
                        if fx.panic.is_some() || fx.fired_early.map_or(true, |f| f.in_drop) {
                            continue;
                        }
                        if !matches!(fx.outs.get(n - 1), Some(Ok(_))) || !matches!(fx.outs.get(n), Some(Ok(Out::Progress { err: None, .. }))) || !matches!(fx.outs.get(n + 1), Some(Ok(_))) {
                            continue;
                        }
                        let Some(fnode) = fx.model.nodes.values().find(|x| x.given == "f") else { continue };
                        self.ctr.crash_images.fetch_add(1, Ordering::Relaxed);
                        let want4 = fnode.data.clone();
                        let r = check_image(cfg, image_from(cfg, &fx.log, &|_| true), &want4, "open-ok-despite-storage-fault-then-written-and-flushed");
                        *self.ctr.classes.lock().unwrap().entry(format!("open-ok-despite-storage-fault:{}", if r.is_some() { "LOST" } else { "intact" })).or_default() += 1;
                        if let Some((sig, msg)) = r {
                            v.push((sig, format!("{msg} [device call {k}/{} of {:?} failed once, the call still reported success; written, flushed]", ex.calls_last, ops[n - 1])));
                            break;
                        }
                    }
                }
            }
        }
        // a truncate of f that failed because of one storage fault; the caller carries on: writes, flushes.
        // The file as found in the final image (independent decoder) must have a sound chain whose clusters are all
        // marked used, and the library must read the same bytes after a remount.
        if let Some(Op::Truncate { h: 0 }) = ops.last() {
            let n = ops.len();
            if n <= 5 && ex.calls_last <= 400 && matches!(ex.outs.last(), Some(Ok(_))) {
                let mut ops2 = ops.to_vec();
                ops2.push(Op::WriteAll { h: 0, len: 512 });
                ops2.push(Op::Flush { h: 0 });
                for k in 1..=ex.calls_last {
                    let plan = Plan { fault: Some((k, 0x00FC_0000 + k as u32)), fault_op: Some(n - 1), ..self.plan() };
                    let fx = sess::run(cfg, &ops2, &plan);
                    if fx.panic.is_some() || fx.fired_early.is_none() {
                        continue;
                    }
                    let ok_after = (n..ops2.len()).all(|i| match fx.outs.get(i) {
                        Some(Ok(Out::Progress { err, .. })) => err.is_none(),
                        Some(Ok(_)) => true,
                        _ => false,
                    });
                    if !ok_after {
                        continue;
                    }
                    let st = image_from(cfg, &fx.log, &|_| true);
                    let Ok(dec) = sess::decode_dev(&st, cfg, &[]) else { continue };
                    let Some(want2) = dec.find_entry("/f").and_then(|e| e.content.clone()) else { continue };
                    self.ctr.crash_images.fetch_add(1, Ordering::Relaxed);
                    let r = check_image(cfg, st, &want2, "truncate-failed-then-continued");
                    *self.ctr.classes.lock().unwrap().entry(format!("truncate-failed-then-continued:{}", if r.is_some() { "LOST" } else { "intact" })).or_default() += 1;
                    if let Some((sig, msg)) = r {
                        v.push((sig, format!("{msg} [device call {k}/{} of {:?} failed once; the caller went on writing and flushed]", ex.calls_last, ops[n - 1])));
                        break;
                    }
                }
            }
        }
        let Some(p) = p else { return v };
        // the flushed file = the node behind handle 0 at the durability point. It may have been renamed (f -> r)
        // since: a rename is not itself durable, so from then on the file may be found under either name
        let nid_at = |i: usize| ex.handle_nids.get(i).and_then(|a| a[0]);
        let nid = if matches!(ops[p], Op::DropFile { .. }) { if p == 0 { None } else { nid_at(p - 1) } } else { nid_at(p) };
        let Some(nid) = nid else { return v };
        let Some(fnode) = ex.model.nodes.get(&nid) else { return v };
        let renamed = fnode.given == "r";
        let fpath = ex.model.path_of(nid);
        let names: Vec<&str> = if renamed { vec!["r", "f"] } else { vec![fpath.trim_start_matches('/')] };
        let want = fnode.data.clone();
        self.ctr.durable_nodes.fetch_add(1, Ordering::Relaxed);
        let log = &ex.log;
        let n = ops.len();
        let last = (n - 1) as u32;
        // positions: cut points j (number of log records that happened) within the last operation
        let first_j = log.iter().position(|r| r.op_idx == last).unwrap_or(log.len());
        let positions: Vec<usize> = if p == n - 1 { vec![log.len()] } else { (first_j + 1..=log.len()).collect() };
        let mut seen = std::collections::BTreeSet::new();
        let mut run = |what: &str, st: DevState, v: &mut Vec<(String, String)>, detail: String| {
            self.ctr.crash_images.fetch_add(1, Ordering::Relaxed);
            let r = check_image_at(cfg, st, &want, what, &names);
            *self.ctr.classes.lock().unwrap().entry(format!("{what}:{}", if r.is_some() { "LOST" } else { "intact" })).or_default() += 1;
            if let Some((sig, msg)) = r {
                if seen.insert(sig.clone()) {
                    v.push((sig, format!("{msg} [{detail}; durability point = op #{p} {:?}]", ops[p])));
                }
            }
        };
        let mut barriers_done = std::collections::BTreeSet::new();
        for &j in &positions {
            // (i) everything before the cut reached the medium
            if log[..j].last().map_or(false, |r| r.kind == Kind::Write) || j == log.len() {
                run("prefix", image_from(cfg, log, &|i| i < j), &mut v, format!("all writes before log position {j} of {} persisted", log.len()));
            }
            // (ii) write-back cache honouring flush: everything after the last barrier before the cut is lost
            let barrier = log[..j].iter().rposition(|r| r.kind == Kind::Flush).map_or(0, |b| b + 1);
            if barrier < j && (self.subsets || barriers_done.insert(barrier)) {
                if barriers_done.insert(barrier) || !self.subsets {
                    // the epoch-loss image only depends on the barrier
                }
                run(
                    "epoch-loss",
                    image_from(cfg, log, &|i| i < barrier),
                    &mut v,
                    format!("cut at log position {j}, all writes after the last device flush (position {barrier}) lost"),
                );
                // a rename of the flushed file after the durability point writes the new entry and then deletes the old one
                // with no device flush between them: a cache that writes back out of order can keep the deletion and
                // lose the new entry. The property speaks of losing everything after a point, so arbitrary subsets
                // are only taken while the file's own entry has not been moved
                if self.subsets && !renamed {
                    // (iii) any subset of the unflushed writes lost (all subsets if <= 8 of them, else sizes <= 2)
                    let unflushed: Vec<usize> = (barrier..j).filter(|i| log[*i].kind == Kind::Write).collect();
                    let m = unflushed.len();
                    if m > 0 && m <= 8 {
                        for mask in 1u32..(1 << m) - 1 {
                            let lost: Vec<usize> = (0..m).filter(|b| mask & (1 << b) != 0).map(|b| unflushed[b]).collect();
                            run("subset-loss", image_from(cfg, log, &|i| i < j && !lost.contains(&i)), &mut v, format!("cut at {j}, lost writes {lost:?}"));
                        }
                    } else if m > 8 {
                        for a in 0..m {
                            run("subset-loss", image_from(cfg, log, &|i| i < j && i != unflushed[a]), &mut v, format!("cut at {j}, lost write {}", unflushed[a]));
                            for b in a + 1..m {
                                run(
                                    "subset-loss",
                                    image_from(cfg, log, &|i| i < j && i != unflushed[a] && i != unflushed[b]),
                                    &mut v,
                                    format!("cut at {j}, lost writes {} and {}", unflushed[a], unflushed[b]),
                                );
                            }
                        }
                    }
                }
            }
        }
        // one storage fault in the LATER operation (an operation that is not on the flushed file):
        // whatever that operation returns, the flushed file must be intact in the image it leaves behind
        if p < n - 1 && ex.calls_last <= 400 && !matches!(ops[n - 1], Op::Remount) {
            for k in 1..=ex.calls_last {
                let plan = Plan { fault: Some((k, 0x00FF_0000 + k as u32)), ..self.plan() };
                let fx = sess::run(cfg, ops, &plan);
                if fx.panic.is_some() || fx.fired.is_none() {
                    continue;
                }
                let res = match fx.outs.last() { Some(Ok(_)) => "Ok", Some(Err(_)) => "Err", None => "none" };
                run("later-op-under-storage-fault", image_from(cfg, &fx.log, &|_| true), &mut v, format!("device call {k}/{} of the later operation {:?} failed once, it returned {res}", ex.calls_last, ops[n - 1]));
            }
        }
        // a flush that failed because of a storage fault, retried: once the retry returns Ok the file must be durable
        if matches!(ops.last(), Some(Op::Flush { h: 0 })) && p == n - 1 {
            let calls = ex.calls_last;
            let mut retry_ops = ops.to_vec();
            retry_ops.push(Op::Flush { h: 0 });
            for k in 1..=calls {
                let plan = Plan { fault: Some((k, 0x00FA_0000 + k as u32)), fault_op: Some(n - 1), ..self.plan() };
                let fx = sess::run(cfg, &retry_ops, &plan);
                if fx.panic.is_some() {
                    continue; // panics under faults belong to C09
                }
                let failed_then_ok = matches!(fx.outs.get(n - 1), Some(Err(_))) && matches!(fx.outs.get(n), Some(Ok(_)));
                // a flush that returned Ok although one of its device calls failed is a durability point like any other
                let ok_despite_fault = matches!(fx.outs.get(n - 1), Some(Ok(_))) && fx.fired_early.is_some();
                if ok_despite_fault {
                    let flog = &fx.log;
                    let j = flog.iter().rposition(|r| r.op_idx == last).map_or(0, |x| x + 1);
                    let detail = format!("device call {k}/{calls} of the flush failed, the flush returned Ok all the same");
                    run("flush-ok-despite-storage-fault-prefix", image_from(cfg, flog, &|i| i < j), &mut v, detail.clone());
                    let barrier = flog[..j].iter().rposition(|r| r.kind == Kind::Flush).map_or(0, |b| b + 1);
                    run("flush-ok-despite-storage-fault-epoch-loss", image_from(cfg, flog, &|i| i < barrier), &mut v, detail);
                    continue;
                }
                if !failed_then_ok {
                    continue;
                }
                let Some(fnode) = fx.model.nodes.values().find(|x| x.given == "f") else { continue };
                let want2 = fnode.data.clone();
                let flog = &fx.log;
                let j = flog.len();
                let detail = format!("flush failed at device call {k}/{calls}, the retried flush returned Ok");
                run("retry-after-failed-flush-prefix", image_from(cfg, flog, &|i| i < j), &mut v, detail.clone());
                let _ = &want2;
                let barrier = flog.iter().rposition(|r| r.kind == Kind::Flush).map_or(0, |b| b + 1);
                run("retry-after-failed-flush-epoch-loss", image_from(cfg, flog, &|i| i < barrier), &mut v, detail);
            }
        }
        drop(run);
        let mut s = self.ctr.samples.lock().unwrap();
        if s.len() < 4 && positions.len() > 1 {
            s.push(json!({"config": cfg.name, "history": ops.iter().map(|o| format!("{o:?}")).collect::<Vec<_>>(), "durability_point_op": p, "crash_positions_in_last_op": positions.len(), "log_records": log.len()}));
        }
        v
    }
}

pub fn alphabet(cs: u32) -> Vec<Op> {
    let r = DirRef::Root;
    let s = |x: &str| x.to_string();
    vec![
        Op::CreateFile { base: r, path: s("f"), keep: Some(0) },
        Op::WriteAll { h: 0, len: 1 },
        Op::WriteAll { h: 0, len: cs },
        Op::WriteAll { h: 0, len: 2 * cs + 1 },
        Op::Flush { h: 0 },
        Op::Seek { h: 0, pos: harness::sess::SeekSpec::Start(0) },
        Op::Seek { h: 0, pos: harness::sess::SeekSpec::Start(1) },
        Op::DropFile { h: 0 },
        Op::OpenFile { base: r, path: s("f"), keep: Some(0) },
        Op::Truncate { h: 0 },
        // later operations that do not modify f; it may be renamed (found under either name while that is in flight)
        Op::Rename { base: r, src: s("f"), dst_base: r, dst: s("r") },
        Op::CreateFile { base: r, path: s("g"), keep: Some(1) },
        Op::WriteAll { h: 1, len: cs + 1 },
        Op::Truncate { h: 1 },
        Op::DropFile { h: 1 },
        Op::CreateDir { base: r, path: s("d"), keep: None },
        Op::CreateFile { base: r, path: s("d/x"), keep: None },
        Op::Remove { base: r, path: s("g") },
        Op::Rename { base: r, src: s("g"), dst_base: r, dst: s("h") },
        Op::Stats,
        Op::Remount,
    ]
}

pub fn specs(tier: &str) -> Vec<ExpSpec> {
    let th = is_thorough(tier);
    let mut v = Vec::new();
    for ft in [FatType::Fat12, FatType::Fat16, FatType::Fat32] {
        let cfg = vol::tiny_with(ft, 12, 16);
        v.push(ExpSpec::new(cfg.clone(), alphabet(512), if th { 7 } else { 4 }));
        // f already exists with one flushed cluster: in-place overwrites and re-flushes within the same depth
        let mut c2 = cfg;
        c2.name = format!("{}-prefilled", c2.name);
        let r = DirRef::Root;
        let prefix = vec![Op::CreateFile { base: r, path: "f".into(), keep: Some(0) }, Op::WriteAll { h: 0, len: 512 }, Op::Flush { h: 0 }];
        v.push(ExpSpec::new(c2, alphabet(512), if th { 5 } else { 4 }).with_prefix(prefix));
    }
    // storage that cuts every transfer at its own 7-byte block boundaries (the FAT copies are split differently)
    {
        let mut c = vol::tiny_with(FatType::Fat12, 12, 16);
        c.name = format!("{}-prefilled-blk7", c.name);
        c.short = harness::dev::Short::Block(7);
        let r = DirRef::Root;
        let prefix = vec![Op::CreateFile { base: r, path: "f".into(), keep: Some(0) }, Op::WriteAll { h: 0, len: 512 }, Op::Flush { h: 0 }];
        v.push(ExpSpec::new(c, alphabet(512), if th { 4 } else { 3 }).with_prefix(prefix));
    }
    // f lies between two runs of deleted slots; a later file needs more slots than either run has
    {
        let mut c = vol::tiny_with(FatType::Fat12, 12, 16);
        c.name = format!("{}-holes", c.name);
        let r = DirRef::Root;
        let prefix = vec![
            Op::CreateFile { base: r, path: "a".into(), keep: None },
            Op::CreateFile { base: r, path: "f".into(), keep: Some(0) },
            Op::WriteAll { h: 0, len: 512 },
            Op::Flush { h: 0 },
            Op::CreateFile { base: r, path: "b".into(), keep: None },
            Op::Remove { base: r, path: "a".into() },
            Op::Remove { base: r, path: "b".into() },
        ];
        let mut al = alphabet(512);
        al.push(Op::CreateFile { base: r, path: "a-name-that-needs-four-slots".into(), keep: None });
        v.push(ExpSpec::new(c, al, 2).with_prefix(prefix));
    }
    {
        // the flushed file lives in a subdirectory; later operations include removing that directory (refused: not empty)
        let mut c = vol::tiny_with(FatType::Fat12, 12, 16);
        c.name = format!("{}-subdir", c.name);
        let r = DirRef::Root;
        let prefix = vec![
            Op::CreateDir { base: r, path: "d".into(), keep: None },
            Op::CreateFile { base: r, path: "d/x".into(), keep: Some(0) },
            Op::WriteAll { h: 0, len: 513 },
            Op::DropFile { h: 0 },
        ];
        let mut al = alphabet(512);
        al.push(Op::Remove { base: r, path: "d".into() });
        v.push(ExpSpec::new(c, al, 2).with_prefix(prefix));
    }
    // access dates on, advancing clock: a read between the write and the flush changes the cached entry (access date)
    // without changing the content; the pending size / first-cluster update must still reach the storage
    // (frozen clock: the read happens on the day of the write, the access date stays what it is; advancing clock: it changes)
    for (ft, ticking) in [(FatType::Fat12, false), (FatType::Fat12, true), (FatType::Fat32, false)] {
        let mut c = vol::tiny_with(ft, 12, 16);
        c.name = format!("{}-atime{}", c.name, if ticking { "-clock" } else { "" });
        c.atime = true;
        c.ticking = ticking;
        let r = DirRef::Root;
        let al = vec![
            Op::CreateFile { base: r, path: "f".into(), keep: Some(0) },
            Op::WriteAll { h: 0, len: 513 },
            Op::Seek { h: 0, pos: harness::sess::SeekSpec::Start(0) },
            Op::Read { h: 0, len: 1 },
            Op::Flush { h: 0 },
            Op::DropFile { h: 0 },
            Op::OpenFile { base: r, path: "f".into(), keep: Some(0) },
            Op::Truncate { h: 0 },
            Op::Remount,
        ];
        v.push(ExpSpec::new(c, al, if th { 6 } else { 5 }));
    }
    let _ = new_dev;
    v
}
