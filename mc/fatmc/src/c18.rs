//! C18 — timestamps round-trip at documented resolution and follow stamping rules.
//! (a) the whole finite domain through set_* / flush / re-list; (b) stamping rules under a deterministic clock.

use std::cell::Cell;
use std::rc::Rc;
use std::sync::atomic::{AtomicU64, Ordering};
use std::time::Instant;

use fatfs::{Date, DateTime, FatType, Time, Write};
use harness::dev::{new_dev, MemDev};
use harness::explore::Checker;
use harness::oracles as o;
use harness::sess::{self, Cfg, DirRef, Exec, Op, Which};
use harness::vol;
use rayon::prelude::*;

use crate::c06::panic_class;
use crate::common::{is_thorough, ExpSpec};

pub struct C18;

impl Checker for C18 {
    fn check(&self, _cfg: &Cfg, ops: &[Op], ex: &Exec) -> Vec<(String, String)> {
        let mut v = o::o_stamps("C18", ex);
        // a successful rename leaves ALL stamp words of the renamed entry (directories included) as they were
        if let (Some(Op::Rename { .. }), Some(Ok(_)), Some(Ok(pre)), Some(Ok(post))) = (ops.last(), ex.outs.last(), &ex.pre, &ex.suffix.flushed) {
            for (nid, _) in &ex.model.nodes {
                if *nid == harness::model::ROOT || !ex.model_pre.nodes.contains_key(nid) {
                    continue;
                }
                let (pa, pb) = (ex.model_pre.path_of(*nid), ex.model.path_of(*nid));
                if pa == pb {
                    continue;
                }
                if let (Some(a), Some(b)) = (pre.find_entry(&pa), post.find_entry(&pb)) {
                    let wa = (a.ctime_tenth, a.ctime, a.cdate, a.adate, a.mtime, a.mdate);
                    let wb = (b.ctime_tenth, b.ctime, b.cdate, b.adate, b.mtime, b.mdate);
                    // only the renamed entry itself (its descendants also change path but are not rewritten)
                    if wa != wb && ex.model.nodes[nid].given != ex.model_pre.nodes[nid].given || (wa != wb && ex.model.nodes[nid].parent != ex.model_pre.nodes[nid].parent) {
                        v.push(("C18/stamp/rename-changed-words".into(), format!("{pa} -> {pb}: stamp words {wa:?} became {wb:?}")));
                    }
                }
            }
        }
        v
    }
}

pub fn alphabet(cs: u32) -> Vec<Op> {
    let r = DirRef::Root;
    let s = |x: &str| x.to_string();
    let _ = cs;
    vec![
        Op::CreateFile { base: r, path: s("f"), keep: Some(0) },
        Op::CreateDir { base: r, path: s("d"), keep: None },
        Op::Write { h: 0, len: 1 },
        Op::Write { h: 0, len: 0 },
        Op::Read { h: 0, len: 1 },
        Op::Seek { h: 0, pos: sess::SeekSpec::Start(0) },
        Op::Truncate { h: 0 },
        Op::Flush { h: 0 },
        Op::DropFile { h: 0 },
        Op::OpenFile { base: r, path: s("f"), keep: Some(0) },
        Op::OpenFile { base: r, path: s("g"), keep: Some(0) },
        Op::Rename { base: r, src: s("f"), dst_base: r, dst: s("g") },
        Op::Rename { base: r, src: s("f"), dst_base: r, dst: s("d/f") },
        Op::Rename { base: r, src: s("d"), dst_base: r, dst: s("e") },
        Op::CreateFile { base: r, path: s("other"), keep: Some(1) },
        Op::Write { h: 1, len: 3 },
        Op::DropFile { h: 1 },
        Op::Remove { base: r, path: s("other") },
        Op::SetTime { h: 0, which: Which::Created, tick: 900 },
        Op::SetTime { h: 0, which: Which::Modified, tick: 901 },
        Op::SetTime { h: 0, which: Which::Accessed, tick: 902 },
        // the same instant for another field (a setter that compares with the wrong stored stamp drops it)
        Op::SetTime { h: 0, which: Which::Modified, tick: 900 },
        Op::SetTime { h: 0, which: Which::Created, tick: 901 },
        Op::Write { h: 0, len: 2 },
        Op::Seek { h: 0, pos: sess::SeekSpec::Start(1) },
        Op::Remount,
        // same time of day as instant(900) (12:00:00.000, exactly representable at 2 s), another date
        Op::SetTime { h: 0, which: Which::Modified, tick: 1500 },
    ]
}

pub fn specs(tier: &str) -> Vec<ExpSpec> {
    let th = is_thorough(tier);
    let mut v = Vec::new();
    for ft in [FatType::Fat12, FatType::Fat32] {
        for atime in [false, true] {
            let mut c = vol::tiny_with(ft, 8, 16);
            c.ticking = true;
            c.atime = atime;
            // the four configurations give the mount options to the builder in four different orders
            c.opts_order = v.len() as u8 % 4;
            c.name = format!("{}-clock{}-opts{}", c.name, if atime { "-atime" } else { "" }, c.opts_order);
            v.push(ExpSpec::new(c, alphabet(512), if th { 8 } else { 5 }));
        }
    }
    // the remaining (builder order, option value) pairs, shallow (create, write, seek, read = 4)
    for (order, atime) in [(0u8, true), (1, false), (2, true), (3, false)] {
        let mut c = vol::tiny_with(FatType::Fat12, 8, 16);
        c.ticking = true;
        c.atime = atime;
        c.opts_order = order;
        c.name = format!("{}-clock{}-opts{}-x", c.name, if atime { "-atime" } else { "" }, order);
        v.push(ExpSpec::new(c, alphabet(512), 4));
    }
    v
}

// ------------------------------------------------------------------------------------------ (a) domain

struct Probe {
    st: Rc<std::cell::RefCell<harness::dev::DevState>>,
    fs: sess::Fs,
    entry_off: u64,
}

fn probe(cfg: &Cfg) -> Probe {
    let (st, _d) = new_dev(&cfg.base);
    let ctr = Rc::new(Cell::new(0u32));
    let fs = sess::mount(MemDev::new(st.clone()), cfg, &ctr).expect("mount");
    {
        let mut f = fs.root_dir().create_file("t").expect("create");
        f.write_all(b"x").expect("write");
    }
    // locate the short entry of "t" in the raw image
    let d = sess::decode_dev(&st.borrow(), cfg, &[]).expect("decode");
    let entry_off = d.find_entry("/t").expect("entry").sfn_abs;
    Probe { st, fs, entry_off }
}

/// set the three stamps (to three DIFFERENT instants derived from the case, in an order that depends on the case; every
/// fifth case to one and the same instant), flush, re-list; compare accessors and raw words field by field
fn roundtrip(p: &Probe, date: (u16, u16, u16), time: (u16, u16, u16, u16), idx: usize) -> Option<(String, String)> {
    let ctx = format!("{:04}-{:02}-{:02} {:02}:{:02}:{:02}.{:03} (case {idx})", date.0, date.1, date.2, time.0, time.1, time.2, time.3);
    let same = idx % 5 == 0;
    // bijections on the valid ranges: while (date, time) sweeps its domain so do the derived instants
    let (md, mt) = if same { (date, time) } else { ((1980 + (date.0 - 1980 + 17) % 128, date.1 % 12 + 1, date.2 % 31 + 1), ((time.0 + 5) % 24, (time.1 + 7) % 60, (time.2 + 22) % 60, (time.3 + 500) % 1000)) };
    let ad = if same { date } else { (1980 + (date.0 - 1980 + 63) % 128, (date.1 + 4) % 12 + 1, (date.2 + 10) % 31 + 1) };
    let r = sess::guarded(|| -> Result<(), (String, String)> {
        let cdt = DateTime::new(Date::new(date.0, date.1, date.2), Time::new(time.0, time.1, time.2, time.3));
        let mdt = DateTime::new(Date::new(md.0, md.1, md.2), Time::new(mt.0, mt.1, mt.2, mt.3));
        let adt = Date::new(ad.0, ad.1, ad.2);
        let root = p.fs.root_dir();
        // every 7th case the entry carries stamp words that no library call produces (0 = "not recorded" as left
        // by DOS / FatFs-style writers, or all ones): the setters' "did it change" guards decode them
        if idx % 7 == 3 {
            let fill = if idx % 14 == 3 { 0u8 } else { 0xFF };
            let mut st = p.st.borrow_mut();
            st.write_at(p.entry_off + 13, &[fill; 7]);
            st.write_at(p.entry_off + 22, &[fill; 4]);
        }
        {
            let mut f = root.open_file("t").map_err(|e| ("C18/machinery/open".to_string(), format!("{:?}", sess::ek(e))))?;
            match idx % 3 {
                0 => {
                    f.set_created(cdt);
                    f.set_modified(mdt);
                    f.set_accessed(adt);
                }
                1 => {
                    f.set_modified(mdt);
                    f.set_created(cdt);
                    f.set_accessed(adt);
                }
                _ => {
                    f.set_accessed(adt);
                    f.set_modified(mdt);
                    f.set_created(cdt);
                }
            }
            // every 11th case the first write-back of the entry fails (transient device error at the k-th device
            // call); the retry below must still bring the stamps to the disk
            if idx % 11 == 5 {
                p.st.borrow_mut().arm(Some((1 + (idx as u64 / 11) % 4, 0xE0F0_0077)), None);
                let _ = f.flush();
                p.st.borrow_mut().disarm();
            }
            f.flush().map_err(|e| ("C18/roundtrip/flush-failed".to_string(), format!("{ctx}: {:?}", sess::ek(e))))?;
        }
        let e = root.iter().filter_map(Result::ok).find(|e| e.file_name() == "t").ok_or(("C18/machinery/relist".to_string(), ctx.clone()))?;
        let c = e.created();
        let m = e.modified();
        let a = e.accessed();
        let want_c = (date.0, date.1, date.2, time.0, time.1, time.2, time.3 / 10 * 10);
        let got_c = (c.date.year, c.date.month, c.date.day, c.time.hour, c.time.min, c.time.sec, c.time.millis);
        if got_c != want_c {
            return Err(("C18/roundtrip/created".into(), format!("set {ctx}: created() returns {got_c:?}, expected {want_c:?}")));
        }
        let want_m = (md.0, md.1, md.2, mt.0, mt.1, mt.2 & !1, 0);
        let got_m = (m.date.year, m.date.month, m.date.day, m.time.hour, m.time.min, m.time.sec, m.time.millis);
        if got_m != want_m {
            return Err(("C18/roundtrip/modified".into(), format!("set {ctx}: modified() returns {got_m:?}, expected {want_m:?}")));
        }
        if (a.year, a.month, a.day) != ad {
            return Err(("C18/roundtrip/accessed".into(), format!("set {ctx}: accessed() returns {:?}, expected {ad:?}", (a.year, a.month, a.day))));
        }
        // raw words (independent DOS packing)
        let raw = p.st.borrow().read_vec(p.entry_off, 32);
        let w = |o: usize| u16::from_le_bytes([raw[o], raw[o + 1]]);
        let dword = |d: (u16, u16, u16)| ((d.0 - 1980) << 9) | (d.1 << 5) | d.2;
        let tword = |t: (u16, u16, u16, u16)| (t.0 << 11) | (t.1 << 5) | (t.2 / 2);
        let tenths = ((time.2 % 2) * 100 + time.3 / 10) as u8;
        if raw[13] != tenths || w(14) != tword(time) || w(16) != dword(date) || w(18) != dword(ad) || w(22) != tword(mt) || w(24) != dword(md) {
            return Err((
                "C18/roundtrip/raw-words".into(),
                format!(
                    "set {ctx}: raw tenths {} ctime {:#06x} cdate {:#06x} adate {:#06x} mtime {:#06x} mdate {:#06x}; expected {tenths} {:#06x} {:#06x} {:#06x} {:#06x} {:#06x}",
                    raw[13],
                    w(14),
                    w(16),
                    w(18),
                    w(22),
                    w(24),
                    tword(time),
                    dword(date),
                    dword(ad),
                    tword(mt),
                    dword(md)
                ),
            ));
        }
        Ok(())
    });
    match r {
        Err(p) => Some((format!("C18/panic/{}", panic_class(&p)), format!("{ctx}: {p}"))),
        Ok(Err(x)) => Some(x),
        Ok(Ok(())) => None,
    }
}

/// returns (violations, evaluations, exhaustive)
pub fn domain(tier: &str, deadline: Instant) -> (Vec<(String, String)>, u64, bool) {
    let th = is_thorough(tier);
    let cfg = vol::tiny_with(FatType::Fat12, 8, 16);
    let evals = AtomicU64::new(0);
    let capped = AtomicU64::new(0);
    // dates: every (y, m, d) accepted by Date::new
    let dates: Vec<(u16, u16, u16)> = (1980..=2107u16).flat_map(|y| (1..=12u16).flat_map(move |m| (1..=31u16).map(move |d| (y, m, d)))).collect();
    // times
    let mut times: Vec<(u16, u16, u16, u16)> = Vec::new();
    if th {
        for h in 0..24u16 {
            for mi in 0..60u16 {
                for s in 0..60u16 {
                    for cs in 0..100u16 {
                        times.push((h, mi, s, cs * 10));
                    }
                }
            }
        }
        for s in [0u16, 1, 58, 59] {
            for ms in 0..1000u16 {
                times.push((12, 34, s, ms));
            }
        }
    } else {
        for h in 0..24u16 {
            for mi in 0..60u16 {
                for s in 0..60u16 {
                    for ms in [0u16, 10, 990, 995] {
                        times.push((h, mi, s, ms));
                    }
                }
            }
            for s in [0u16, 1] {
                for cs in 0..100u16 {
                    times.push((h, 59, s, cs * 10 + 5));
                }
            }
        }
    }
    let run_chunk = |chunk: &[((u16, u16, u16), (u16, u16, u16, u16))]| -> Vec<(String, String)> {
        let mut v = Vec::new();
        if Instant::now() > deadline {
            capped.fetch_add(1, Ordering::Relaxed);
            return v;
        }
        let p = probe(&cfg);
        for (k, (d, t)) in chunk.iter().enumerate() {
            evals.fetch_add(1, Ordering::Relaxed);
            if let Some(x) = roundtrip(&p, *d, *t, k) {
                v.push(x);
                if v.len() > 4 {
                    break;
                }
            }
        }
        drop(p);
        v
    };
    let cases: Vec<((u16, u16, u16), (u16, u16, u16, u16))> =
        dates.iter().map(|d| (*d, (13, 37, 41, 370))).chain(times.iter().map(|t| ((2024, 2, 29), *t))).collect();
    let mut v: Vec<(String, String)> = cases.par_chunks(20_000).flat_map(run_chunk).collect();
    v.sort();
    v.dedup_by(|a, b| a.0 == b.0);
    (v, evals.load(Ordering::Relaxed), capped.load(Ordering::Relaxed) == 0)
}
