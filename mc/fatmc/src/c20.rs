//! C20 — large volumes: 64-bit addressing, last clusters, allocation wrap-around.
//! Sparse procedural FAT32 volumes (all clusters bad except a listed free set), explorer with the
//! model / raw-image oracles.

use std::sync::Arc;

use harness::decoder;
use harness::dev::Base;
use harness::explore::Checker;
use harness::oracles as o;
use harness::sess::{Cfg, DirRef, Exec, Op, SeekSpec};

use crate::common::{is_thorough, ExpSpec};

pub struct C20;

impl Checker for C20 {
    fn plan(&self) -> harness::sess::Plan {
        // whole-FAT scans on these volumes legitimately take hundreds of millions of device calls (268 million FAT
        // entries on the largest shape; a scan that wraps around reads them twice)
        harness::sess::Plan { budget: Some(1_200_000_000), ..Default::default() }
    }
    fn check(&self, _cfg: &Cfg, ops: &[Op], ex: &Exec) -> Vec<(String, String)> {
        let mut v = o::o_result("C20", ops, ex);
        if !v.is_empty() {
            return v;
        }
        v.extend(o::o_tree_boundary("C20", ops, ex));
        v.extend(o::o_tree_suffix("C20", ex, true));
        v.extend(o::o_extents("C20", ex));
        v.extend(o::o_invariants("C20", ops, ex));
        v.extend(o::o_writes("C20", ops, ex));
        v.extend(o::o_free_space("C20", ops, ex));
        let st = ex.st.borrow();
        let boot = st.read_vec(0, 512);
        if let Ok(g) = decoder::parse_raw(&boot) {
            let end = g.volume_end();
            if ex.max_addr > end {
                v.push(("C20/addressed-beyond-volume-end".into(), format!("highest offset addressed {} > declared end {end}", ex.max_addr)));
            }
            // sentinel tail: only the overlay can differ from the procedural base
            for (pno, _) in st.canonical_overlay() {
                if pno * 512 >= end {
                    v.push(("C20/sentinel-tail-modified".into(), format!("page {pno} after the declared end changed")));
                    break;
                }
            }
            // extents must equal the offsets the independent geometry assigns to the decoded chain
            if let Some(Ok(post)) = &ex.post {
                for (si, nid, r, _) in &ex.suffix.extents {
                    if let (Ok(ext), Some(_)) = (r, ex.model.nodes.get(nid)) {
                        let p = ex.model.path_of(*nid);
                        // live handle: take the chain from the handle's first cluster as decoded
                        if let Some(e) = post.find_entry(&p) {
                            let want: Vec<u64> = e.chain.iter().map(|c| g.cluster_off(*c)).collect();
                            let got: Vec<u64> = ext.iter().map(|x| x.0).collect();
                            if !got.is_empty() && got != want[..got.len().min(want.len())] {
                                v.push(("C20/extents-differ-from-independent-geometry".into(), format!("handle {si} on {p}: extents at {got:?}, chain {:?} is at {want:?}", e.chain)));
                            }
                        }
                    }
                }
            }
        }
        v
    }
}

#[derive(Clone, Debug)]
pub struct Shape {
    pub name: &'static str,
    pub bps: u32,
    pub spc: u32,
    pub clusters: u64,
}

pub fn shapes(th: bool) -> Vec<Shape> {
    let mut v = vec![
        // data region crosses 4 GiB with 512-byte sectors
        Shape { name: "s512-4GiB", bps: 512, spc: 8, clusters: (4u64 << 30) / 4096 + 1000 },
        // the format's limit: u32::MAX sectors (2 TiB, crosses the 1 TiB mark too)
        Shape { name: "s512-maxsectors", bps: 512, spc: 64, clusters: 0 },
    ];
    if th {
        // just past the 1 TiB mark, 512-byte sectors, 32 KiB clusters
        v.push(Shape { name: "s512-1TiB", bps: 512, spc: 64, clusters: (1u64 << 40) / 32768 + 1000 });
    }
    // 4096-byte sectors: the maximal FAT32 cluster count and a FAT larger than 512 MiB (quick tier: two free sets each)
    v.push(Shape { name: "s4096-maxclusters", bps: 4096, spc: 1, clusters: 0x0FFF_FFF5 });
    v.push(Shape { name: "s4096-bigfat", bps: 4096, spc: 1, clusters: 0x0800_0001 });
    // 4096-byte sectors x 16 sectors per cluster, maximised under the 32-bit sector count: 16 TiB, byte offsets up to 2^44
    // (every other shape stays below 2^41: a byte offset computed through a 32-bit count of 512-byte units shows only here)
    v.push(Shape { name: "s4096x16-maxsectors", bps: 4096, spc: 16, clusters: 0 });
    v
}

pub struct Sparse {
    pub cfg: Cfg,
    pub last: u32,
}

/// a pre-existing file in the root directory of a procedural volume: BIG.BIN, `len` consecutive clusters from `start`
#[derive(Clone, Copy, Debug)]
pub struct BigFile {
    pub start: u32,
    pub len: u32,
    pub size: u32,
}

/// procedural FAT32 volume: every cluster bad except `free` (and the root cluster 2)
pub fn sparse(shape: &Shape, free: &[u32], hint: u32, name: &str) -> Sparse {
    sparse_with(shape, free, hint, name, None)
}

pub fn sparse_with(shape: &Shape, free: &[u32], hint: u32, name: &str, big: Option<BigFile>) -> Sparse {
    let bps = shape.bps as u64;
    let spc = shape.spc as u64;
    let reserved = 32u64;
    let nfats = 2u64;
    let mut clusters = shape.clusters;
    if clusters == 0 {
        // maximise: total = reserved + 2*spf + clusters*spc <= u32::MAX
        let mut c = (u32::MAX as u64 - reserved) / spc;
        loop {
            let spf = ((c + 2) * 4 + bps - 1) / bps;
            if reserved + nfats * spf + c * spc <= u32::MAX as u64 {
                break;
            }
            c -= 1;
        }
        clusters = c;
    }
    let spf = ((clusters + 2) * 4 + bps - 1) / bps;
    // the data area ends in a partial cluster (spc-1 slack sectors) wherever the 32-bit sector count allows it
    let slack = if reserved + nfats * spf + clusters * spc + spc - 1 <= u32::MAX as u64 { spc - 1 } else { 0 };
    let total = reserved + nfats * spf + clusters * spc + slack;
    assert!(total <= u32::MAX as u64, "{}: {total} sectors", shape.name);
    let tail = 1u64 << 20;
    let len = total * bps + tail;
    let mut boot = [0u8; 512];
    {
        let b = &mut boot;
        b[0] = 0xEB;
        b[1] = 0x58;
        b[2] = 0x90;
        b[3..11].copy_from_slice(b"VERIFBIG");
        b[11..13].copy_from_slice(&(bps as u16).to_le_bytes());
        b[13] = spc as u8;
        b[14..16].copy_from_slice(&(reserved as u16).to_le_bytes());
        b[16] = nfats as u8;
        b[21] = 0xF8;
        b[24..26].copy_from_slice(&63u16.to_le_bytes());
        b[26..28].copy_from_slice(&255u16.to_le_bytes());
        b[32..36].copy_from_slice(&(total as u32).to_le_bytes());
        b[36..40].copy_from_slice(&(spf as u32).to_le_bytes());
        b[44..48].copy_from_slice(&2u32.to_le_bytes());
        b[48..50].copy_from_slice(&1u16.to_le_bytes());
        b[50..52].copy_from_slice(&6u16.to_le_bytes());
        b[64] = 0x80;
        b[66] = 0x29;
        b[67..71].copy_from_slice(&0xB16B_00B5u32.to_le_bytes());
        b[71..82].copy_from_slice(b"NO NAME    ");
        b[82..90].copy_from_slice(b"FAT32   ");
        b[510] = 0x55;
        b[511] = 0xAA;
    }
    let mut fsinfo = [0u8; 512];
    fsinfo[0..4].copy_from_slice(&0x4161_5252u32.to_le_bytes());
    fsinfo[484..488].copy_from_slice(&0x6141_7272u32.to_le_bytes());
    fsinfo[488..492].copy_from_slice(&(free.len() as u32).to_le_bytes());
    fsinfo[492..496].copy_from_slice(&hint.to_le_bytes());
    fsinfo[508..512].copy_from_slice(&0xAA55_0000u32.to_le_bytes());
    let mut free_sorted: Vec<u32> = free.to_vec();
    free_sorted.sort_unstable();
    let fat_start = reserved * bps;
    let fat_bytes = spf * bps;
    let vol_end = total * bps;
    let last = (clusters + 1) as u32;
    let data_start = (reserved + nfats * spf) * bps;
    let big_slot = big.map(|b| harness::builder::sfn_slot(b"BIG     BIN", 0x20, 0, harness::builder::Times::default(), b.start, b.size));
    let f = move |pno: u64, out: &mut [u8; 512]| {
        let off = pno * 512;
        if off >= vol_end {
            out.fill(0xCD);
            return;
        }
        out.fill(0);
        if off == 0 || off == 6 * bps {
            out.copy_from_slice(&boot);
            return;
        }
        if off == bps {
            out.copy_from_slice(&fsinfo);
            return;
        }
        if off == data_start {
            if let Some(slot) = &big_slot {
                out[..32].copy_from_slice(slot);
            }
            return;
        }
        if off >= fat_start && off < fat_start + nfats * fat_bytes {
            let rel = (off - fat_start) % fat_bytes;
            let e0 = rel / 4;
            for i in 0..128u64 {
                let e = e0 + i;
                let val: u32 = if e == 0 {
                    0x0FFF_FFF8
                } else if e == 1 {
                    0x0FFF_FFFF
                } else if e == 2 {
                    0x0FFF_FFFF
                } else if e > last as u64 {
                    0
                } else if let Some(b) = big.filter(|b| e >= b.start as u64 && e < b.start as u64 + b.len as u64) {
                    if e + 1 == b.start as u64 + b.len as u64 {
                        0x0FFF_FFFF
                    } else {
                        e as u32 + 1
                    }
                } else if free_sorted.binary_search(&(e as u32)).is_ok() {
                    0
                } else {
                    0x0FFF_FFF7
                };
                out[(i * 4) as usize..(i * 4 + 4) as usize].copy_from_slice(&val.to_le_bytes());
            }
        }
    };
    let base = Arc::new(Base::Proc { len, f: Box::new(f) });
    let mut cfg = Cfg::new(name, base);
    let mut cands = free.to_vec();
    cands.push(2);
    cfg.candidates = Some(Arc::new(cands));
    Sparse { cfg, last }
}

pub fn alphabet(cs: u32) -> Vec<Op> {
    let r = DirRef::Root;
    let s = |x: &str| x.to_string();
    vec![
        Op::CreateFile { base: r, path: s("f"), keep: Some(0) },
        Op::Write { h: 0, len: cs },
        Op::Write { h: 0, len: 1 },
        Op::Read { h: 0, len: cs + 1 },
        Op::Seek { h: 0, pos: SeekSpec::Start(0) },
        Op::Seek { h: 0, pos: SeekSpec::Start(cs as u64) },
        Op::Extents { h: 0 },
        Op::Truncate { h: 0 },
        Op::DropFile { h: 0 },
        Op::Remove { base: r, path: s("f") },
        Op::CreateDir { base: r, path: s("d"), keep: None },
        Op::CreateFile { base: r, path: s("d/g"), keep: Some(1) },
        Op::Write { h: 1, len: 7 },
        Op::Remount,
        // entries whose first cluster lies far above 0xFFFF are moved / renamed / reopened
        Op::Rename { base: r, src: s("f"), dst_base: r, dst: s("r") },
        Op::Rename { base: r, src: s("f"), dst_base: r, dst: s("d/f") },
        Op::Rename { base: r, src: s("d"), dst_base: r, dst: s("e") },
        Op::OpenFile { base: r, path: s("r"), keep: Some(0) },
        Op::Stats,
    ]
}

pub fn specs(tier: &str) -> Vec<ExpSpec> {
    let th = is_thorough(tier);
    let mut v = Vec::new();
    for sh in shapes(th) {
        let probe = sparse(&sh, &[3], 0xFFFF_FFFF, "probe");
        let last = probe.last;
        let g = {
            let st = harness::dev::DevState::new(probe.cfg.base.clone());
            decoder::parse_raw(&st.read_vec(0, 512)).unwrap()
        };
        let cs = g.cluster_size();
        // the cluster whose bytes straddle / follow the 4 GiB and 1 TiB marks
        let at = |mark: u64| -> Option<u32> {
            if g.data_off() < mark && mark < g.data_end() {
                Some(((mark - g.data_off()) / cs) as u32 + 2)
            } else {
                None
            }
        };
        // (free set, hints): hints are chosen so that allocation scans stay short on volumes with tens of
        // millions of clusters (a scan of the whole FAT is one device call per entry); "unset" only where low
        // clusters are free or the volume is the small one
        let small = g.clusters < 2_000_000;
        // six or more free clusters: a depth-5 history never exhausts them, so no whole-FAT scan for a full volume
        let mut sets: Vec<(String, Vec<u32>, Vec<(&str, u32)>)> = vec![
            ("low4-last2".into(), vec![3, 4, 5, 6, last - 1, last], vec![("last-1", last - 1), ("last", last), ("last+1", last + 1), ("low", 3)]),
            // (with the hint on the last cluster the third allocation would scan the whole FAT up to last-3: small shape only)
            ("last4-low2".into(), vec![last - 3, last - 2, last - 1, last, 3, 4], if small { vec![("last-3", last - 3), ("last", last)] } else { vec![("last-3", last - 3)] }),
        ];
        if small {
            sets.push(("low4-last2".into(), vec![3, 4, 5, 6, last - 1, last], vec![("unset", 0xFFFF_FFFF)]));
            sets.push(("last-only".into(), vec![last], vec![("last", last), ("last-1", last - 1)]));
        }
        // the scan really wraps: the hint sits on the only free cluster near the end, the allocation after it starts at
        // the (occupied) last cluster, runs off the end and has to continue at cluster 2 while EXTENDING a chain
        sets.push(("low4-lastm1".into(), vec![3, 4, 5, 6, last - 1], vec![("last-1", last - 1), ("last", last)]));
        // a first cluster whose low 16 bits are zero (and the clusters around it)
        {
            let m = (last - 1) & !0xFFFF;
            if m > 0x1_0000 {
                sets.push(("lowword0".into(), vec![m - 1, m, m + 1, m + 2, 3, 4], vec![("on", m), ("before", m - 1)]));
            }
        }
        if let Some(c) = at(1 << 32) {
            sets.push(("at4GiB".into(), (c - 2..=c + 3).collect(), vec![("just-before", c - 3), ("on", c)]));
        }
        if let Some(c) = at(1 << 40) {
            sets.push(("at1TiB".into(), (c - 2..=c + 3).collect(), vec![("just-before", c - 3), ("on", c)]));
        }
        let reduced = !th && sh.name.starts_with("s4096");
        for (sn, set, hints) in &sets {
            if reduced && !(sn == "low4-last2" || sn == "lowword0") {
                continue;
            }
            for (i, (hn, h)) in hints.iter().enumerate() {
                if !th && (i > 1 || (reduced && i > 0)) {
                    continue;
                }
                let name = format!("{}-free-{sn}-hint-{hn}", sh.name);
                let sp = sparse(&sh, set, *h, &name);
                // with a single free cluster every allocation on the full volume scans the whole FAT (one device call
                // per entry): one level less
                let d = if sn == "last-only" { if th { 4 } else { 3 } } else if th { 5 } else { 4 };
                // the file handle exists from the start: one more level for what happens to its clusters
                let prefix = vec![Op::CreateFile { base: DirRef::Root, path: "f".into(), keep: Some(0) }];
                v.push(ExpSpec::new(sp.cfg, alphabet(cs as u32), d).with_prefix(prefix));
            }
        }
    }
    v
}
