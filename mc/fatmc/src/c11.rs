//! C11 — writes stay inside the volume and inside what the operation may change.

use fatfs::FatType;
use harness::builder::{Builder, MkSpec};
use harness::dev::Short;
use harness::explore::Checker;
use harness::oracles as o;
use harness::sess::{Cfg, Exec, Op, Plan};
use harness::{decoder, vol};

use crate::alpha;
use crate::common::{is_thorough, ExpSpec};

pub struct C11;

impl Checker for C11 {
    fn plan(&self) -> Plan {
        Plan::default()
    }
    fn check(&self, cfg: &Cfg, ops: &[Op], ex: &Exec) -> Vec<(String, String)> {
        let mut v = self.check_one(ops, ex);
        // thorough tier: every single short transfer (one deviation from the default device answer) of every
        // operation of the shallow histories, on the devices that otherwise transfer everything at once
        let thorough = std::env::var("VERIF_TIER").map_or(false, |t| t == "thorough");
        if thorough && v.is_empty() && ex.panic.is_none() && cfg.short == Short::Exact && ops.len() <= 2 && ex.rw_calls_last <= 1500 {
            for k in 1..=ex.rw_calls_last {
                let plan = Plan { short_at: Some(k), ..self.plan() };
                let sx = harness::sess::run(cfg, ops, &plan);
                // the contract documents retryable errors for `read` and `write` only (io.rs): a seek or flush that
                // answers "interrupted" is outside it
                if !matches!(sx.fired.map(|f| f.kind), Some(harness::dev::Kind::Read | harness::dev::Kind::Write)) {
                    continue;
                }
                for (sig, msg) in self.check_one(ops, &sx) {
                    let sig = sig.replace("C11/", "C11/single-short-transfer/");
                    if !v.iter().any(|(s, _)| *s == sig) {
                        v.push((sig, format!("{msg} [read/write call {k} of the last operation transferred half of what was asked]")));
                    }
                }
            }
        }
        // one retryable ("interrupted") storage error at every device call of the last operation
        if v.is_empty() && ex.panic.is_none() && cfg.short == Short::Exact && ops.len() <= 2 && ex.calls_last <= 800
            && ["t12-f8-r16", "t32-f8-r0", "b16-res4-tail"].contains(&cfg.name.as_str())
        {
            for k in 1..=ex.calls_last {
                let plan = Plan { fault: Some((k, harness::dev::ID_INTR)), ..self.plan() };
                let sx = harness::sess::run(cfg, ops, &plan);
                // the contract documents retryable errors for `read` and `write` only (io.rs): a seek or flush that
                // answers "interrupted" is outside it
                if !matches!(sx.fired.map(|f| f.kind), Some(harness::dev::Kind::Read | harness::dev::Kind::Write)) {
                    continue;
                }
                for (sig, msg) in self.check_one(ops, &sx) {
                    let sig = sig.replace("C11/", "C11/one-retryable-error/");
                    if !v.iter().any(|(s, _)| *s == sig) {
                        v.push((sig, format!("{msg} [device call {k} of the last operation answered with a retryable error]")));
                    }
                }
            }
        }
        v
    }
}

/// builder volume with free parameters (hidden sectors, root entries, cluster count)
pub fn mk_free(width: u8, hidden: u32, root_entries: Option<u32>, clusters: Option<u64>, name: &str) -> Cfg {
    let mut s = MkSpec::new(width);
    s.hidden = hidden;
    if let Some(r) = root_entries {
        s.root_entries = r;
    }
    if let Some(c) = clusters {
        s.clusters = c;
    }
    s.reserved = if width == 32 { 32 } else { 4 };
    s.tail = 64 * 1024;
    let mut b = Builder::new(s);
    let last = b.geo.max_cluster();
    let first = if width == 32 { 3 } else { 2 };
    let keep: Vec<u32> = vec![first, first + 1, first + 2, first + 3, first + 4, last - 1, last];
    b.ballast(&keep);
    b.set_fsinfo(keep.len() as u32, 0xFFFF_FFFF);
    let mut cands = keep.clone();
    if width == 32 {
        cands.push(2);
    }
    vol::cfg_from(name, b.finish(), Some(cands))
}

impl C11 {
    fn check_one(&self, ops: &[Op], ex: &Exec) -> Vec<(String, String)> {
        let mut v = o::o_writes("C11", ops, ex);
        // the sentinel tail after the declared end of the volume must be intact
        let st = ex.st.borrow();
        let boot = st.read_vec(0, 512);
        if let Ok(g) = decoder::parse_raw(&boot) {
            let end = g.volume_end();
            if st.len > end {
                let tail = st.read_vec(end, (st.len - end) as usize);
                if let Some(p) = tail.iter().position(|b| *b != 0xCD) {
                    v.push(("C11/sentinel-tail-modified".into(), format!("byte {} after the declared end changed", p)));
                }
            }
            if ex.max_addr > end {
                v.push(("C11/addressed-beyond-volume-end".into(), format!("highest offset addressed {} > declared end {end}", ex.max_addr)));
            }
        }
        v
    }
}

pub fn mk(width: u8, reserved: u32, spc: u32, slack: u32, name: &str) -> Cfg {
    mk_ext(width, reserved, spc, slack, 0, name)
}

pub fn mk_ext(width: u8, reserved: u32, spc: u32, slack: u32, ext_flags: u16, name: &str) -> Cfg {
    let mut s = MkSpec::new(width);
    s.ext_flags = ext_flags;
    s.spc = spc;
    s.reserved = reserved;
    s.slack_sectors = slack;
    s.tail = 64 * 1024;
    if width == 12 {
        s.clusters = 12;
    }
    let mut b = Builder::new(s);
    let last = b.geo.max_cluster();
    let first = if width == 32 { 3 } else { 2 };
    // volumes with slack keep only four clusters free, so a short history exhausts them and reaches the last one
    let keep: Vec<u32> = if slack > 0 { vec![first, first + 1, last - 1, last] } else { vec![first, first + 1, first + 2, first + 3, first + 4, last - 1, last] };
    b.ballast(&keep);
    b.set_fsinfo(keep.len() as u32, 0xFFFF_FFFF);
    let mut cands = keep.clone();
    if width == 32 {
        cands.push(2);
    }
    vol::cfg_from(name, b.finish(), Some(cands))
}

/// builder volume with another sector size / reserved top nibble (FAT32) and the lowest end-of-chain value
pub fn mk_var(width: u8, reserved: u32, spc: u32, bps: u32, nib: u32, name: &str) -> Cfg {
    let mut s = MkSpec::new(width);
    s.spc = spc;
    s.bps = bps;
    s.nibble = nib;
    if nib != 0 {
        s.eoc = s.eoc_low();
    }
    s.reserved = reserved;
    s.tail = 64 * 1024;
    let mut b = Builder::new(s);
    let last = b.geo.max_cluster();
    let first = if width == 32 { 3 } else { 2 };
    let keep: Vec<u32> = vec![first, first + 1, first + 2, first + 3, first + 4, last - 1, last];
    b.ballast(&keep);
    b.set_fsinfo(keep.len() as u32, 0xFFFF_FFFF);
    let mut cands = keep.clone();
    if width == 32 {
        cands.push(2);
    }
    vol::cfg_from(name, b.finish(), Some(cands))
}

/// FAT16 builder volume with another sector size and root size
pub fn mk_geo16(bps: u32, root_entries: u32, clusters: u64, name: &str) -> Cfg {
    let mut s = MkSpec::new(16);
    s.bps = bps;
    s.root_entries = root_entries;
    s.clusters = clusters;
    s.reserved = 4;
    s.tail = 64 * 1024;
    let mut b = Builder::new(s);
    let last = b.geo.max_cluster();
    let keep: Vec<u32> = vec![2, 3, 4, 5, 6, last - 1, last];
    b.ballast(&keep);
    vol::cfg_from(name, b.finish(), Some(keep))
}

/// a FAT12/16 volume populated through the library and then made "foreign": the two bytes of every short entry that
/// hold the high word of the first cluster on FAT32 (an extended-attribute handle on other systems) carry junk. They
/// are not part of the cluster number on FAT12/16
pub fn foreign_hiword(cfg: &Cfg, cs: u32) -> Cfg {
    foreign(cfg, cs, false)
}

pub fn foreign(cfg: &Cfg, cs: u32, low_eoc: bool) -> Cfg {
    use harness::sess::{DirRef, Plan};
    let r = DirRef::Root;
    let s = |x: &str| x.to_string();
    let ops = vec![
        Op::CreateFile { base: r, path: s("a"), keep: Some(0) },
        Op::WriteAll { h: 0, len: 2 * cs + 1 },
        Op::CreateDir { base: r, path: s("d"), keep: None },
        Op::CreateFile { base: r, path: s("d/a"), keep: Some(1) },
        Op::WriteAll { h: 1, len: 3 },
        Op::DropFile { h: 1 },
        Op::CreateFile { base: r, path: s("long-name-1.txt"), keep: Some(1) },
        Op::WriteAll { h: 1, len: cs + 1 },
    ];
    let ex = harness::sess::run(cfg, &ops, &Plan::default());
    assert!(ex.panic.is_none() && ex.outs.iter().all(Result::is_ok), "populate failed: {:?}", ex.outs);
    let mut img = ex.st.borrow().image();
    let g = vol::geo_of(&img);
    assert!(g.width != 32);
    let patch = |img: &mut Vec<u8>, off: usize, n: usize| -> Vec<u32> {
        let mut subdirs = Vec::new();
        for i in 0..n {
            let o = off + 32 * i;
            if img[o] == 0 {
                break;
            }
            if img[o] == 0xE5 || img[o + 11] & 0x3F == 0x0F {
                continue;
            }
            if img[o + 11] & 0x10 != 0 && img[o] != b'.' {
                subdirs.push(u16::from_le_bytes([img[o + 26], img[o + 27]]) as u32);
            }
            img[o + 20] = 0x34;
            img[o + 21] = 0x12;
        }
        subdirs
    };
    let subs = patch(&mut img, g.root_off() as usize, (g.root_bytes() / 32) as usize);
    for c in subs {
        patch(&mut img, g.cluster_off(c) as usize, (g.cluster_size() / 32) as usize);
    }
    if low_eoc {
        // every chain ends with the lowest legal end-of-chain value instead of the highest one
        let (hi, lo) = if g.width == 12 { (0xFFFu32, 0xFF8u32) } else { (0xFFFF, 0xFFF8) };
        for cl in 2..=g.max_cluster() {
            let (off, _) = g.fat_entry_off(0, cl);
            let off = off as usize;
            let w = u16::from_le_bytes([img[off], img[off + 1]]);
            let v = if g.width == 12 { (if cl & 1 == 0 { w & 0x0FFF } else { w >> 4 }) as u32 } else { w as u32 };
            if v == hi {
                vol::set_fat(&mut img, &g, cl, lo);
            }
        }
    }
    let mut c = cfg.clone();
    c.base = std::sync::Arc::new(harness::dev::Base::Bytes(img));
    c.name = format!("{}-foreign-{}", cfg.name, if low_eoc { "loweoc" } else { "hiword" });
    let mut m = ex.model.clone();
    m.close_all();
    m.changed_since_mount = false;
    c.model0 = Some(std::sync::Arc::new(m));
    c
}

pub fn specs(tier: &str) -> Vec<ExpSpec> {
    let th = is_thorough(tier);
    let mut cfgs = Vec::new();
    for ft in [FatType::Fat12, FatType::Fat16, FatType::Fat32] {
        cfgs.push(vol::tiny_with(ft, 8, 16));
    }
    let mut cfgs: Vec<(Cfg, u32)> = cfgs.into_iter().map(|c| (c, 512)).collect();
    cfgs.push((mk(12, 4, 1, 0, "b12-res4-tail"), 512));
    cfgs.push((mk(16, 4, 1, 0, "b16-res4-tail"), 512));
    cfgs.push((mk(32, 32, 1, 0, "b32-res32-tail"), 512));
    // mirroring enabled with a stale non-zero active-copy number (only meaningful when mirroring is off): the
    // table still starts at copy 0 and every copy is kept up to date
    cfgs.push((mk_ext(32, 32, 1, 0, 0x0001, "b32-res32-mirror-stale-active1-tail"), 512));
    // FAT16 with slack (the end of the volume is reached within the depth), mirroring off (only the active copy may
    // be written), sectors of 1024 bytes, reserved FAT32 bits set everywhere + the lowest end-of-chain value
    cfgs.push((mk(16, 4, 2, 1, "b16-spc2-slack1-tail"), 1024));
    cfgs.push((mk_ext(32, 32, 1, 0, 0x0081, "b32-nomirror-active1-tail"), 512));
    cfgs.push((mk_ext(32, 32, 1, 0, 0x0080, "b32-nomirror-active0-tail"), 512));
    cfgs.push((mk_var(32, 32, 1, 1024, 0, "b32-bps1024-tail"), 1024));
    cfgs.push((mk_var(32, 32, 1, 512, 0xA, "b32-nibbleA-eoclow-tail"), 512));
    cfgs.push((mk(12, 1, 4, 3, "b12-spc4-slack3-tail"), 2048));
    cfgs.push((mk(32, 32, 8, 7, "b32-spc8-slack7-tail"), 4096));
    // FAT16 with 4096-byte sectors and the usual 512-entry root (4 root sectors: the data area starts behind them)
    cfgs.push((mk_geo16(4096, 512, 5000, "b16-bps4096-root512-tail"), 4096));
    // FAT32 with the information sector in sector 2 and the backup boot sector in sector 8
    {
        let mut s = MkSpec::new(32);
        s.reserved = 32;
        s.fsinfo_sector = 2;
        s.backup_sector = 8;
        s.tail = 64 * 1024;
        let mut b = Builder::new(s);
        let last = b.geo.max_cluster();
        let keep: Vec<u32> = vec![3, 4, 5, 6, 7, last - 1, last];
        b.ballast(&keep);
        b.set_fsinfo(keep.len() as u32, 0xFFFF_FFFF);
        let mut cands = keep.clone();
        cands.push(2);
        cfgs.push((vol::cfg_from("b32-fsinfo2-backup8-tail", b.finish(), Some(cands)), 512));
    }
    // FAT32 whose free clusters all lie above 0xFFFF
    cfgs.push((vol::t32_high(), 512));
    {
        cfgs.push((mk_free(16, 63, None, None, "b16-hidden63-tail"), 512));
        cfgs.push((mk_free(32, 2048, None, None, "b32-hidden2048-tail"), 512));
    }
    {
        cfgs.push((mk_free(16, 0, Some(24), None, "b16-root24-tail"), 512));
        cfgs.push((mk_free(12, 0, Some(40), Some(40), "b12-root40-tail"), 512));
    }
    let alpha_of = |cs: u32| {
        let mut a = alpha::mixed(cs);
        // dot entries as the target of remove / the source of rename
        use harness::sess::DirRef;
        a.push(Op::Remove { base: DirRef::Root, path: "d/.".into() });
        a.push(Op::Rename { base: DirRef::Root, src: "d/.".into(), dst_base: DirRef::Root, dst: "e".into() });
        a
    };
    let mut v = Vec::new();
    for (c, cs) in cfgs {
        let slack = c.name.contains("slack");
        v.push(ExpSpec::new(c.clone(), alpha_of(cs), if th { 5 } else if slack { 4 } else { 3 }));
        let mut c2 = c;
        c2.name = format!("{}-short", c2.name);
        c2.short = Short::Always;
        v.push(ExpSpec::new(c2, alpha_of(cs), if th { 4 } else { 3 }));
    }
    v.extend(crate::c03::fragmented_dir_specs(th));
    for ft in [FatType::Fat12, FatType::Fat16] {
        let c = foreign_hiword(&vol::tiny_with(ft, 12, 16), 512);
        v.push(ExpSpec::new(c, alpha::mixed(512), if th { 4 } else { 3 }));
    }
    {
        for ft in [FatType::Fat12, FatType::Fat16] {
            let c = foreign(&vol::tiny_with(ft, 12, 16), 512, true);
            v.push(ExpSpec::new(c, alpha::mixed(512), 3));
        }
    }
    {
        // a file truncated to nothing and closed, volume remounted (FAT12/16 forget the allocation hint): whatever still
        // points at the freed chain on the storage is re-used by the next allocation; the same after the dot entry of
        // /d was (not) moved out and /d removed
        use harness::sess::{DirRef, SeekSpec};
        let r = DirRef::Root;
        for ft in [FatType::Fat12, FatType::Fat16] {
            let mut c = vol::tiny_with(ft, 8, 16);
            c.name = format!("{}-truncreuse", c.name);
            let prefix = vec![
                Op::CreateFile { base: r, path: "a".into(), keep: Some(0) },
                Op::WriteAll { h: 0, len: 1025 },
                Op::Seek { h: 0, pos: SeekSpec::Start(0) },
                Op::Truncate { h: 0 },
                Op::DropFile { h: 0 },
                Op::Remount,
            ];
            v.push(ExpSpec::new(c, alpha::mixed(512), 3).with_prefix(prefix));
            let mut c = vol::tiny_with(ft, 8, 16);
            c.name = format!("{}-dotmove", c.name);
            let prefix = vec![
                Op::CreateDir { base: r, path: "d".into(), keep: None },
                Op::Rename { base: r, src: "d/.".into(), dst_base: r, dst: "e".into() },
                Op::Remove { base: r, path: "d".into() },
                Op::Remount,
            ];
            v.push(ExpSpec::new(c, alpha::mixed(512), 2).with_prefix(prefix));
        }
    }
    v
}
