//! C16 — generated 8.3 aliases are legal, unique and tied to their long name.

use std::cell::Cell;
use std::collections::{BTreeMap, BTreeSet};
use std::rc::Rc;
use std::sync::atomic::{AtomicU64, Ordering};
use std::time::Instant;

use fatfs::FatType;
use harness::decoder::{self, DecodeOpts, Lfn};
use harness::dev::{new_dev, MemDev};
use harness::model;
use harness::report::Report;
use harness::sess::{self, Cfg};
use harness::vol;
use rayon::prelude::*;
use serde_json::json;

use crate::c06::panic_class;
use crate::common::{is_thorough, violation, wall_budget};

fn vol_cfg() -> Cfg {
    let spec = vol::VolSpec {
        name: "a12-r512".into(),
        fat: FatType::Fat12,
        bps: 512,
        spc: 4,
        fats: 2,
        root_entries: 512,
        clusters: Some(600),
        free: None,
        tail: 0,
    };
    let (img, c) = vol::build(&spec).expect("alias volume");
    vol::cfg_from(&spec.name, img, c)
}

fn legal_sfn(sfn: &[u8; 11]) -> Result<(), String> {
    let ok_char = |b: u8| b.is_ascii_uppercase() || b.is_ascii_digit() || b"!#$%&'()-@^_`{}~".contains(&b);
    for (field, range) in [("base", 0..8usize), ("ext", 8..11)] {
        let f = &sfn[range];
        let len = f.iter().rposition(|b| *b != b' ').map_or(0, |p| p + 1);
        if field == "base" && len == 0 {
            return Err("empty base name".into());
        }
        for (i, b) in f.iter().enumerate() {
            if i < len {
                if !ok_char(*b) {
                    return Err(format!("illegal byte {:#04x} ({:?}) in {field} at {i}", b, *b as char));
                }
            } else if *b != b' ' {
                return Err(format!("padding byte {:#04x} in {field}", b));
            }
        }
    }
    Ok(())
}

/// check every entry of directory `path` in the raw image
fn check_dir(st: &harness::dev::DevState, path: &str, expect: &BTreeSet<String>, foreign: &BTreeSet<[u8; 11]>, ctx: &str) -> Vec<(String, String)> {
    let mut v = Vec::new();
    let d = match decoder::decode(st, &DecodeOpts { read_content: false, ..Default::default() }) {
        Ok(d) => d,
        Err(e) => return vec![("C16/undecodable".into(), format!("{ctx}: {e}"))],
    };
    let Some(dir) = d.dir_by_path(path) else { return vec![("C16/machinery/dir-missing".into(), ctx.to_string())] };
    let mut shorts = BTreeSet::new();
    let mut names = BTreeSet::new();
    for e in &dir.entries {
        if e.is_dot() {
            continue;
        }
        names.insert(e.name.clone());
        if foreign.contains(&e.sfn) {
            shorts.insert(e.sfn);
            continue;
        }
        if let Err(m) = legal_sfn(&e.sfn) {
            v.push(("C16/illegal-short-name".into(), format!("{ctx}: entry {:?} has short name {:?}: {m}", e.name, String::from_utf8_lossy(&e.sfn))));
        }
        // the case flags belong to the alias: set, they make every reader display the alias in lower case
        if e.nt & 0x18 != 0 {
            v.push(("C16/alias-carries-lower-case-flags".into(), format!("{ctx}: entry {:?}: flags byte {:#04x}", e.name, e.nt)));
        }
        if !shorts.insert(e.sfn) {
            v.push(("C16/duplicate-short-name".into(), format!("{ctx}: short name {:?} used twice (second: {:?})", String::from_utf8_lossy(&e.sfn), e.name)));
        }
        match &e.lfn {
            Lfn::Valid => {}
            // no long-name slots at all: fine for a name that is exactly its 8.3 form (the name set is compared below)
            Lfn::None => {}
            other => v.push(("C16/long-name-run-not-tied-to-alias".into(), format!("{ctx}: entry {:?}: {other:?}", e.name))),
        }
    }
    if !dir.orphan_lfn_slots.is_empty() {
        v.push(("C16/orphan-long-name-slots".into(), format!("{ctx}: {:?}", &dir.orphan_lfn_slots[..dir.orphan_lfn_slots.len().min(8)])));
    }
    if &names != expect {
        let missing: Vec<&String> = expect.difference(&names).take(5).collect();
        let extra: Vec<&String> = names.difference(expect).take(5).collect();
        v.push(("C16/directory-content-differs".into(), format!("{ctx}: missing {missing:?} extra {extra:?}")));
    }
    v
}

/// create (and sometimes remove) `names` in `dir_path` of a fresh volume; check aliases along the way
fn population(cfg: &Cfg, dir_path: &str, names: &[String], remove_every: usize, check_every: usize, label: &str, evals: &AtomicU64) -> Vec<(String, String)> {
    let mut v = Vec::new();
    let (st, _d) = new_dev(&cfg.base);
    let ctr = Rc::new(Cell::new(0u32));
    let r = sess::guarded(|| -> Result<(), (String, String)> {
        let fs = sess::mount(MemDev::new(st.clone()), cfg, &ctr).map_err(|e| ("C16/machinery/mount".to_string(), format!("{:?}", sess::ek(e))))?;
        let root = fs.root_dir();
        let dir = if dir_path == "/" { root } else { root.create_dir(&dir_path[1..]).map_err(|e| ("C16/machinery/mkdir".to_string(), format!("{:?}", sess::ek(e))))? };
        // sibling directory that already holds entries with the same prefixes (so the aliases generated there clash
        // with the ones in the population directory)
        let side = if dir_path != "/" { fs.root_dir().create_dir("side").ok() } else { None };
        let mut live: BTreeSet<String> = BTreeSet::new();
        let mut folded: BTreeSet<String> = BTreeSet::new();
        let mut foreign: BTreeSet<[u8; 11]> = BTreeSet::new();
        if dir_path == "/" {
            let d0 = decoder::decode(&st.borrow(), &DecodeOpts { read_content: false, ..Default::default() }).map_err(|e| ("C16/undecodable".to_string(), e))?;
            if let Some(dd) = d0.dir_by_path("/") {
                for e in &dd.entries {
                    live.insert(e.name.clone());
                    folded.insert(model::fold(&e.name));
                    foreign.insert(e.sfn);
                }
            }
        }
        let mut created = 0usize;
        for (i, name) in names.iter().enumerate() {
            if !model::name_errors(name).0.is_empty() || name == "." || name == ".." {
                continue;
            }
            let f = model::fold(name);
            if folded.contains(&f) {
                continue; // would open the existing entry
            }
            // a name that already resolves (it equals the generated alias of an existing entry) would open that
            // entry instead of creating one: not a creation, skip it
            match dir.open_file(name) {
                Ok(_) => continue,
                Err(e) => match sess::ek(e) {
                    harness::model::ErrKind::NotFound => {}
                    // (resolves to a directory of that name / alias)
                    harness::model::ErrKind::InvalidInput => continue,
                    k => return Err((format!("C16/lookup-failed/{}", k.name()), format!("{label}: open {name:?} -> {k:?}"))),
                },
            }
            evals.fetch_add(1, Ordering::Relaxed);
            let n_live = live.len() as u64;
            // termination budget in units of "one scan of this directory", measured on the spot (independent of how many
            // device calls the library needs per slot): a creation legitimately needs at most n/9 + 2 generator rounds
            // (every failed round means nine more aliases of the next hash value are in use); factor 4 for libraries
            // that scan more than once per round
            st.borrow_mut().arm(None, Some(4_000_000));
            let _ = dir.iter().count();
            let scan_calls = st.borrow().calls.max(64);
            st.borrow_mut().arm(None, Some(4 * scan_calls * (n_live / 9 + 3) + 20_000));
            // every entry the library creates gets an alias: most names become files, every 5th a directory, every 7th
            // is first created in a sibling directory (where it gets an alias of its own) and then moved in under
            // the same name
            let res = if i % 7 == 6 && dir_path != "/" {
                match &side {
                    Some(sd) => sd.create_file(name).map(|_| ()).and_then(|()| sd.rename(name, &dir, name)).map_err(sess::ek),
                    None => dir.create_file(name).map(|_| ()).map_err(sess::ek),
                }
            } else if i % 5 == 4 {
                dir.create_dir(name).map(|_| ()).map_err(sess::ek)
            } else {
                dir.create_file(name).map(|_| ()).map_err(sess::ek)
            };
            let hit = st.borrow().budget_hit;
            st.borrow_mut().disarm();
            if hit {
                return Err(("C16/alias-generation-does-not-terminate".into(), format!("{label}: creating {name:?} with {n_live} live entries exceeded the device-call budget")));
            }
            match res {
                Ok(()) => {
                    live.insert(name.clone());
                    folded.insert(f);
                    created += 1;
                }
                Err(harness::model::ErrKind::NotEnoughSpace) => {
                    // admissible only if the independently decoded directory has no room for the entry set and cannot grow
                    let d = decoder::decode(&st.borrow(), &DecodeOpts { read_content: false, ..Default::default() }).map_err(|e| ("C16/undecodable".to_string(), e))?;
                    let needed = (name.encode_utf16().count() + 12) / 13 + 1;
                    let room = d.dir_by_path(dir_path).map(|dd| sess::dir_room(dd, needed));
                    let fixed_root = dir_path == "/" && d.geo.width != 32;
                    let can_grow = !fixed_root && d.free > 0;
                    let makes_dir = i % 5 == 4 && !(i % 7 == 6 && dir_path != "/");
                    match room {
                        Some((false, _)) if !can_grow => break,
                        // a new directory needs a cluster of its own
                        _ if makes_dir && d.free == 0 => break,
                        _ => return Err(("C16/create-failed/NotEnoughSpace-with-room-left".into(), format!("{label}: creating {name:?} with {n_live} live entries -> NotEnoughSpace although the directory has room / can grow ({} free clusters)", d.free))),
                    }
                }
                Err(k) => return Err((format!("C16/create-failed/{}", k.name()), format!("{label}: creating {name:?} with {n_live} live entries -> {k:?}"))),
            }
            if remove_every > 0 && created % remove_every == 0 {
                // remove the entry created `remove_every / 2` creations ago (slot and tail reuse)
                if let Some(victim) = live.iter().nth(live.len() / 3).cloned() {
                    dir.remove(&victim).map_err(|e| ("C16/remove-failed".to_string(), format!("{label}: {victim:?}: {:?}", sess::ek(e))))?;
                    live.remove(&victim);
                    folded.remove(&model::fold(&victim));
                }
            }
            if check_every > 0 && (created % check_every == 0 || i + 1 == names.len()) {
                let probs = check_dir(&st.borrow(), dir_path, &live, &foreign, &format!("{label} after {created} creations"));
                if !probs.is_empty() {
                    return Err(probs.into_iter().next().unwrap());
                }
                // short_file_name() of every listed entry is consistent with the raw bytes
                let mut listed = BTreeMap::new();
                for e in dir.iter() {
                    let e = e.map_err(|e| ("C16/listing-error".to_string(), format!("{label}: {:?}", sess::ek(e))))?;
                    listed.insert(e.file_name(), e.short_file_name());
                }
                let d = decoder::decode(&st.borrow(), &DecodeOpts { read_content: false, ..Default::default() }).map_err(|e| ("C16/undecodable".to_string(), e))?;
                if let Some(dd) = d.dir_by_path(dir_path) {
                    for e in &dd.entries {
                        if e.is_dot() || foreign.contains(&e.sfn) {
                            continue;
                        }
                        let disp = decoder::short_display(&e.sfn, 0);
                        if listed.get(&e.name) != Some(&disp) {
                            return Err(("C16/short_file_name-differs-from-raw-bytes".into(), format!("{label}: {:?}: listed {:?}, raw {:?}", e.name, listed.get(&e.name), disp)));
                        }
                    }
                }
            }
        }
        let probs = check_dir(&st.borrow(), dir_path, &live, &foreign, &format!("{label} at the end ({created} creations)"));
        if let Some(p) = probs.into_iter().next() {
            return Err(p);
        }
        Ok(())
    });
    match r {
        Err(p) => v.push((format!("C16/panic/{}", panic_class(&p)), format!("{label}: {p}"))),
        Ok(Err(x)) => v.push(x),
        Ok(Ok(())) => {}
    }
    v
}

/// the alias volume with a root directory that already holds entries made by another implementation
fn foreign_cfg() -> Cfg {
    use harness::builder::{sfn_slot, Times};
    let spec = vol::VolSpec { name: "a12-r512-foreign".into(), fat: FatType::Fat12, bps: 512, spc: 4, fats: 2, root_entries: 512, clusters: Some(600), free: None, tail: 0 };
    let (mut img, c) = vol::build(&spec).expect("alias volume");
    let g = vol::geo_of(&img);
    let off = g.root_off() as usize;
    let slots: Vec<([u8; 11], u8)> = vec![
        (*b"HC\xE9\xE9\xE9\xE9~1TXT", 0),   // OEM characters where the library keeps the hash
        (*b"HCOLLI~7TXT", 0),              // tails the library never hands out
        (*b"HCOLL~10TXT", 0),
        (*b"HCOLLI~2TXT", 0x18),           // a hole-free family is not guaranteed on a foreign volume
        (*b"\x05COLLI~1TXT", 0),           // 0xE5 lead byte stored as 0x05
        (*b"README  TXT", 0x18),
    ];
    for (i, (n, nt)) in slots.iter().enumerate() {
        let s = sfn_slot(n, 0x20, *nt, Times::default(), 0, 0);
        img[off + 32 * i..off + 32 * i + 32].copy_from_slice(&s);
    }
    vol::cfg_from(&spec.name, img, c)
}

pub fn small_alphabet_names() -> Vec<String> {
    let alpha = ['a', 'B', '.', ' ', '+', 'é', '~', '1'];
    let mut out = Vec::new();
    for len in 1..=4usize {
        let mut idx = vec![0usize; len];
        loop {
            out.push(idx.iter().map(|i| alpha[*i]).collect::<String>());
            let mut k = 0;
            while k < len {
                idx[k] += 1;
                if idx[k] < alpha.len() {
                    break;
                }
                idx[k] = 0;
                k += 1;
            }
            if k == len {
                break;
            }
        }
    }
    out
}

/// BSD checksum over UTF-16-truncated code points, as used for the 2-character + hash alias form
/// (input generation only: finds names that collide on the hash)
fn bsd16(name: &str) -> u16 {
    let mut s: u16 = 0;
    for c in name.chars() {
        s = (s >> 1).wrapping_add(s << 15).wrapping_add(c as u32 as u16);
    }
    s
}

pub fn hash_colliders(n: usize) -> Vec<String> {
    // names "hcolli-<n>.txt": identical 6-character prefix (hence 2-character prefix), extension and 16-bit hash,
    // so that both alias forms (HCOLLI~n and HCxxxx~n) collide
    let mut by: BTreeMap<u16, Vec<String>> = BTreeMap::new();
    let mut i = 0u32;
    loop {
        let name = format!("hcolli-{:07}.txt", i);
        let h = bsd16(&name);
        let e = by.entry(h).or_default();
        e.push(name);
        if e.len() >= n {
            return e.clone();
        }
        i += 1;
        if i > 40_000_000 {
            return by.into_values().max_by_key(Vec::len).unwrap_or_default();
        }
    }
}

/// `n` names "hcolli-<k>.txt" whose 16-bit hash is exactly `h` (the boundary values of the hash range: the alias
/// generator increments the hash after every nine collisions and has to wrap around)
pub fn hash_colliders_at(h: u16, n: usize) -> Vec<String> {
    // "hcolli-<12 pseudo-random letters/digits>.txt": the tail is varied by a fixed linear congruential sequence so
    // that every 16-bit hash value is reachable (a plain counter reaches only a few hundred values)
    let letters = b"abcdefghijklmnopqrstuvwxyz0123456789";
    let mut v: Vec<String> = Vec::new();
    let mut state = 0x2545_F491_4F6C_DD1Du64 ^ h as u64;
    for _ in 0..60_000_000u64 {
        let mut name = String::from("hcolli-");
        for _ in 0..12 {
            state = state.wrapping_mul(6_364_136_223_846_793_005).wrapping_add(1_442_695_040_888_963_407);
            name.push(letters[(state >> 33) as usize % letters.len()] as char);
        }
        name.push_str(".txt");
        if bsd16(&name) == h && !v.contains(&name) {
            v.push(name);
            if v.len() >= n {
                break;
            }
        }
    }
    assert!(v.len() >= n, "only {} names with hash {h:#06x} found", v.len());
    v
}

pub fn run(tier: &str) -> i32 {
    let th = is_thorough(tier);
    let t0 = Instant::now();
    let deadline = t0 + wall_budget(tier);
    let cfg = vol_cfg();
    let evals = AtomicU64::new(0);
    let names = small_alphabet_names();
    let mut jobs: Vec<(String, String, Vec<String>, usize, usize)> = Vec::new();
    // (1a) every name alone
    for chunk in names.chunks(64) {
        for n in chunk {
            jobs.push((format!("alone:{n:?}"), "/".into(), vec![n.clone()], 0, 1));
        }
    }
    // (1b) all names one after another in one cluster-chained directory, every third removed after 100 creations
    // names that look like generated aliases ("~" + digit) go first: a later name that equals an existing
    // alias would legitimately open that entry instead of creating a new one
    let alias_shaped = |n: &String| n.as_bytes().windows(2).any(|w| w[0] == b'~' && w[1].is_ascii_digit());
    let mut all: Vec<String> = if th { names.clone() } else { names.iter().step_by(3).cloned().collect() };
    all.sort_by_key(|n| !alias_shaped(n));
    jobs.push(("all-small-alphabet-names-in-one-directory".into(), "/big".into(), all, 3, if th { 100 } else { 150 }));
    // (2) collision populations
    let n = if th { 400 } else { 40 };
    let pops: Vec<(&str, Vec<String>)> = vec![
        ("six-char-prefix", (0..n).map(|i| format!("collide-{i}.txt")).collect()),
        ("prefix-and-hash-collide", hash_colliders(n.min(if th { 60 } else { 24 }))),
        ("prefix-collides-hash-ffff", hash_colliders_at(0xFFFF, n.min(if th { 60 } else { 24 }))),
        ("prefix-collides-hash-fffe", hash_colliders_at(0xFFFE, n.min(if th { 60 } else { 34 }))),
        ("prefix-collides-hash-0000", hash_colliders_at(0x0000, n.min(if th { 60 } else { 24 }))),
        // many rounds of the generator at linear cost: the aliases HCOLLI~1..4 and HChhhh~1..9 for K consecutive hash
        // values (wrapping past 0xFFFF) are taken by names that ARE those aliases; one more name with that prefix
        // and the first hash value then needs K + 1 rounds
        ("many-generator-rounds", {
            let k: u32 = if th { 150 } else { 30 };
            let h0: u16 = 0xFFF0;
            let mut v: Vec<String> = (1..=4).map(|i| format!("HCOLLI~{i}.TXT")).collect();
            for d in 0..k {
                let h = h0.wrapping_add(d as u16);
                v.extend((1..=9).map(|i| format!("HC{h:04X}~{i}.TXT")));
            }
            v.extend(hash_colliders_at(h0, 2));
            v
        }),
        // every ASCII character that is legal in a long name, in the base name and in the extension (the characters
        // that are not legal in short names have to be replaced in the alias), plus a 3-byte character and one whose
        // low byte is an ASCII letter
        ("every-legal-ascii-character", {
            let mut v = Vec::new();
            for c in (0x20u8..0x7F).map(|b| b as char).chain(['\u{4E2D}', '\u{0141}']) {
                if !model::name_errors(&c.to_string()).0.is_empty() {
                    continue;
                }
                v.push(c.to_string());
                v.push(format!("a{c}"));
                v.push(format!("a.{c}"));
                v.push(format!("{}.{}", c.to_string().repeat(9), c.to_string().repeat(4)));
            }
            v
        }),
        // hash-form collisions for names whose base is empty / one character long after conversion: the four tails of
        // the short form and the first two tails of the hash form are taken by names that ARE those aliases
        ("empty-base-hash-form", {
            let t = " .tx";
            let mut v: Vec<String> = (1..=4).map(|i| format!("~{i}.TX")).collect();
            v.extend((1..=2).map(|i| format!("{:04X}~{i}.TX", bsd16(t))));
            v.push(t.to_string());
            v
        }),
        ("one-char-base-hash-form", {
            let t = "x .tx";
            let mut v: Vec<String> = (1..=4).map(|i| format!("X~{i}.TX")).collect();
            v.extend((1..=2).map(|i| format!("X{:04X}~{i}.TX", bsd16(t))));
            v.push(t.to_string());
            v
        }),
        ("alias-shaped-long-names", (1..=n).map(|i| format!("COLLID~{i}.TXT")).collect()),
        ("alias-shaped-then-colliding", (1..=9).map(|i| format!("COLLID~{i}.TXT")).chain((0..n).map(|i| format!("collide-{i}.txt"))).collect()),
        ("non-ascii-prefix", (0..n).map(|i| format!("ééééééé-{i}.tx")).collect()),
        ("dots-and-spaces", (0..n).map(|i| format!(". x .{i}. . y")).collect()),
    ];
    for (pn, p) in &pops {
        for dir in ["/", "/sub"] {
            for rm in [0usize, 3] {
                jobs.push((format!("{pn}:{}:{}", if dir == "/" { "fixed-root" } else { "subdirectory" }, if rm == 0 { "no-removals" } else { "with-removals" }), dir.to_string(), p.clone(), rm, if th { 50 } else { 10 }));
            }
        }
    }
    let fcfg = foreign_cfg();
    let fjobs: Vec<(String, String, Vec<String>, usize, usize)> = vec![
        ("foreign-root:hash-colliders".into(), "/".into(), hash_colliders(16), 0, 1),
        ("foreign-root:hash-colliders:with-removals".into(), "/".into(), hash_colliders(16), 3, 1),
        ("foreign-root:six-char-prefix".into(), "/".into(), (0..20).map(|i| format!("hcolli-{i}.txt")).collect(), 3, 1),
    ];
    let capped = AtomicU64::new(0);
    let res: Vec<Vec<(String, String)>> = jobs
        .par_iter()
        .map(|(label, dir, names, rm, ce)| {
            if Instant::now() > deadline {
                capped.fetch_add(1, Ordering::Relaxed);
                return vec![];
            }
            population(&cfg, dir, names, *rm, *ce, label, &evals)
        })
        .collect();
    let fres: Vec<Vec<(String, String)>> = fjobs.par_iter().map(|(label, dir, names, rm, ce)| population(&fcfg, dir, names, *rm, *ce, label, &evals)).collect();
    let mut all: BTreeMap<String, (String, u64)> = BTreeMap::new();
    for (sig, msg) in res.into_iter().chain(fres).flatten() {
        all.entry(sig).or_insert((msg, 0)).1 += 1;
    }
    let mut rep = Report::new("C16", tier, "exploration");
    for (sig, (msg, n)) in all {
        let mut v = violation("C16", &sig, &msg, &cfg.name);
        v.count = n;
        rep.add(v, json!({"check": "C16", "case": msg}));
    }
    let ncap = capped.load(Ordering::Relaxed);
    rep.coverage = json!({
        "evaluations": evals.load(Ordering::Relaxed),
        "distinct_nontrivial": jobs.len(),
        "rule": "all 4680 names over {a,B,.,space,+,é,~,1} of length 1..=4, each alone and (thorough: all; quick: every third) one after another in one cluster-chained directory with removals; collision populations of N names (6-character prefix, 2-character prefix + identical 16-bit hash (an arbitrary value and the boundary values 0xFFFF, 0xFFFE, 0x0000 of the hash range), alias-shaped long names, K+1 generator rounds forced by pre-taken aliases, every legal ASCII character in base and extension, non-ASCII prefix, dots/spaces); every 5th name is created as a directory, every 7th is created in a sibling directory and moved in in the fixed root and in a subdirectory, with and without interleaved removals; after every batch every short-name slot is examined in the raw image by the independent decoder; distinct_nontrivial = number of distinct populations/jobs",
        "samples": [{"population": "six-char-prefix", "first": "collide-0.txt", "n": n}, {"population": "two-char-prefix-and-hash", "names": hash_colliders(3)}],
        "exhaustive": ncap == 0,
        "jobs_skipped_by_deadline": ncap,
        "population_size": n,
        "technique": "bounded-exhaustive enumeration of names and colliding directory populations on the real crate; raw short-name bytes and long-name checksums judged by the independent decoder",
    });
    rep.assumptions = vec!["the per-call device budget (4 x the device calls of one scan of the directory, measured on the spot, x (n/9 + 3) generator rounds + 20000) detects non-termination".into()];
    rep.wall_s = t0.elapsed().as_secs_f64();
    rep.finish()
}
