//! Shared alphabets.

use harness::sess::{DirRef, Op, SeekSpec};

/// Reduced union of the namespace (C01) and file I/O (C02) alphabets plus stats / remount:
/// 3 names, 2 lengths, two file handles, one directory handle.
pub fn mixed(cs: u32) -> Vec<Op> {
    let r = DirRef::Root;
    let s = |x: &str| x.to_string();
    let mut a = Vec::new();
    // namespace
    // "exactly13unit" fills its long-name slot completely (no terminator); "twelve-12.tx" (rename target) leaves room
    // for the terminator only (no padding)
    for p in ["a", "long-name-1.txt", "d/a", "x:y", "exactly13unit"] {
        a.push(Op::CreateFile { base: r, path: s(p), keep: None });
    }
    a.push(Op::CreateFile { base: r, path: "m".repeat(100), keep: None });
    for p in ["d", "d/e", "x:y"] {
        a.push(Op::CreateDir { base: r, path: s(p), keep: None });
    }
    a.push(Op::CreateDir { base: r, path: "k".repeat(100), keep: None });
    for p in ["a", "long-name-1.txt", "d", "d/e", "d/a"] {
        a.push(Op::Remove { base: r, path: s(p) });
    }
    a.push(Op::Remove { base: r, path: "m".repeat(100) });
    for (p, q) in [("a", "b"), ("a", "d/a"), ("d/a", "a"), ("d", "q"), ("d/e", "e"), ("a", "x:y"), ("d", "d/e/z"), ("long-name-1.txt", "twelve-12.tx"), ("e", "d/e")] {
        a.push(Op::Rename { base: r, src: s(p), dst_base: r, dst: s(q) });
    }
    a.push(Op::Rename { base: r, src: s("a"), dst_base: r, dst: "n".repeat(100) });
    // file handles
    a.push(Op::CreateFile { base: r, path: s("a"), keep: Some(0) });
    a.push(Op::CreateFile { base: r, path: s("d/a"), keep: Some(1) });
    a.push(Op::OpenFile { base: r, path: s("long-name-1.txt"), keep: Some(1) });
    for h in [0u8, 1] {
        a.push(Op::Write { h, len: 1 });
        a.push(Op::WriteAll { h, len: 2 * cs + 1 });
        a.push(Op::Seek { h, pos: SeekSpec::Start(cs as u64) });
        a.push(Op::Seek { h, pos: SeekSpec::Start(cs as u64 + 1) });
        a.push(Op::Seek { h, pos: SeekSpec::Start(0) });
        a.push(Op::Truncate { h });
        a.push(Op::Flush { h });
        a.push(Op::DropFile { h });
    }
    a.push(Op::Read { h: 0, len: cs + 1 });
    // directory handle
    a.push(Op::OpenDir { base: r, path: s("d"), keep: Some(0) });
    a.push(Op::CreateFile { base: DirRef::H(0), path: s("r"), keep: None });
    a.push(Op::Remove { base: DirRef::H(0), path: s("r") });
    a.push(Op::DropDir { d: 0 });
    a.push(Op::Stats);
    a.push(Op::Remount);
    a
}
