//! C03 — on-disk structures stay consistent after every operation.
//! C04 — remount and independent decode agree with what the session saw.

use fatfs::FatType;
use harness::dev::Short;
use harness::explore::Checker;
use harness::oracles as o;
use harness::sess::{Cfg, Exec, Op};
use harness::vol;

use crate::alpha;
use crate::common::{is_thorough, ExpSpec};

pub struct C03;

impl Checker for C03 {
    fn check(&self, _cfg: &Cfg, ops: &[Op], ex: &Exec) -> Vec<(String, String)> {
        o::o_invariants("C03", ops, ex)
    }
}

pub struct C04;

impl Checker for C04 {
    fn check(&self, _cfg: &Cfg, ops: &[Op], ex: &Exec) -> Vec<(String, String)> {
        // the session's last observation is the model, which is kept in lockstep with the results
        let mut v = o::o_result("C04", ops, ex);
        if !v.is_empty() {
            // the model is out of step with the session: the agreement oracle cannot be evaluated here;
            // result mismatches belong to C01/C02
            return Vec::new();
        }
        v.extend(o::o_tree_suffix("C04", ex, true));
        v.extend(o::o_extents("C04", ex));
        v
    }
}

pub fn geometry_cfg(ft: FatType, bps: u16, spc: u32, fats: u8, root_entries: u16, nfree: usize) -> Option<Cfg> {
    let spec = vol::VolSpec {
        name: format!(
            "g{}-{}x{}-{}f-r{}",
            match ft {
                FatType::Fat12 => 12,
                FatType::Fat16 => 16,
                FatType::Fat32 => 32,
            },
            bps,
            spc,
            fats,
            root_entries
        ),
        fat: ft,
        bps,
        spc,
        fats,
        root_entries,
        clusters: Some(match ft {
            FatType::Fat12 => nfree as u64,
            FatType::Fat16 => 4085,
            FatType::Fat32 => 65525,
        }),
        free: if ft == FatType::Fat12 { None } else { Some(nfree) },
        tail: 0,
    };
    let (img, cands) = vol::build(&spec).ok()?;
    Some(vol::cfg_from(&spec.name, img, cands))
}

/// geometry grid G (pairwise-ish subset in the quick tier)
pub fn grid(th: bool) -> Vec<Cfg> {
    let mut v = Vec::new();
    let sectors: &[u16] = &[512, 1024, 2048, 4096];
    let spcs: &[u32] = &[1, 2, 4, 8, 16, 32, 64, 128];
    let mut i = 0usize;
    for &bps in sectors {
        for &spc in spcs {
            if bps as u32 * spc > 65536 && !th {
                continue;
            }
            for ft in [FatType::Fat12, FatType::Fat16, FatType::Fat32] {
                for fats in [1u8, 2] {
                    for big_root in [false, true] {
                        i += 1;
                        // FAT16/32 volumes need >= 4085/65525 clusters: image size = clusters * cluster size;
                        // keep the harness within memory: skip images above 160 MiB
                        let clusters: u64 = match ft {
                            FatType::Fat12 => 10,
                            FatType::Fat16 => 4085,
                            FatType::Fat32 => 65525,
                        };
                        if clusters * bps as u64 * spc as u64 > 160 << 20 {
                            continue;
                        }
                        if !th && i % 9 != 0 {
                            continue;
                        }
                        let root = if big_root { 512 } else { bps / 32 };
                        if ft == FatType::Fat32 && big_root {
                            continue;
                        }
                        if let Some(c) = geometry_cfg(ft, bps, spc, fats, root, 10) {
                            v.push(c);
                        }
                    }
                }
            }
        }
    }
    v
}

pub fn specs(tier: &str, _prop: &str) -> Vec<ExpSpec> {
    let th = is_thorough(tier);
    let mut v = Vec::new();
    for ft in [FatType::Fat12, FatType::Fat16, FatType::Fat32] {
        let cfg = vol::tiny_with(ft, 8, 16);
        v.push(ExpSpec::new(cfg.clone(), alpha::mixed(512), if th { 5 } else { 4 }));
        let mut c2 = cfg;
        c2.name = format!("{}-short", c2.name);
        c2.short = Short::Always;
        v.push(ExpSpec::new(c2, alpha::mixed(512), if th { 4 } else { 3 }));
    }
    // single FAT copy
    for ft in [FatType::Fat12, FatType::Fat32] {
        if let Some(c) = geometry_cfg(ft, 512, 1, 1, 16, 8) {
            v.push(ExpSpec::new(c, alpha::mixed(512), if th { 4 } else { 3 }));
        }
    }
    for c in grid(th) {
        let cs = {
            let st = harness::dev::DevState::new(c.base.clone());
            let b = st.read_vec(0, 512);
            harness::decoder::parse_raw(&b).map(|g| g.cluster_size() as u32).unwrap_or(512)
        };
        v.push(ExpSpec::new(c, alpha::mixed(cs), 2));
    }
    v
}
