//! C03 — on-disk structures stay consistent after every operation.
//! C04 — remount and independent decode agree with what the session saw.

use fatfs::FatType;
use harness::dev::Short;
use harness::explore::Checker;
use harness::oracles as o;
use harness::sess::{Cfg, Exec, Op};
use harness::vol;

use crate::alpha;
use crate::common::{is_thorough, ExpSpec};

pub struct C03;

impl Checker for C03 {
    fn check(&self, _cfg: &Cfg, ops: &[Op], ex: &Exec) -> Vec<(String, String)> {
        o::o_invariants("C03", ops, ex)
    }
}

pub struct C04;

impl Checker for C04 {
    fn check(&self, _cfg: &Cfg, ops: &[Op], ex: &Exec) -> Vec<(String, String)> {
        // the session's last observation is the model, which is kept in lockstep with the results
        let mut v = o::o_result("C04", ops, ex);
        if !v.is_empty() {
            // the model is out of step with the session: the agreement oracle cannot be evaluated here;
            // result mismatches belong to C01/C02
            return Vec::new();
        }
        v.extend(o::o_tree_suffix("C04", ex, true));
        v.extend(o::o_extents("C04", ex));
        v
    }
}

pub fn geometry_cfg(ft: FatType, bps: u16, spc: u32, fats: u8, root_entries: u16, nfree: usize) -> Option<Cfg> {
    let spec = vol::VolSpec {
        name: format!(
            "g{}-{}x{}-{}f-r{}",
            match ft {
                FatType::Fat12 => 12,
                FatType::Fat16 => 16,
                FatType::Fat32 => 32,
            },
            bps,
            spc,
            fats,
            root_entries
        ),
        fat: ft,
        bps,
        spc,
        fats,
        root_entries,
        clusters: Some(match ft {
            FatType::Fat12 => nfree as u64,
            FatType::Fat16 => 4085,
            FatType::Fat32 => 65525,
        }),
        free: if ft == FatType::Fat12 { None } else { Some(nfree) },
        tail: 0,
    };
    let (img, cands) = vol::build(&spec).ok()?;
    Some(vol::cfg_from(&spec.name, img, cands))
}

pub fn grid_prefix(cs: u32) -> Vec<Op> {
    use harness::sess::DirRef;
    let r = DirRef::Root;
    vec![
        Op::CreateFile { base: r, path: "a".into(), keep: Some(0) },
        Op::WriteAll { h: 0, len: cs + 1 },
        Op::CreateDir { base: r, path: "d".into(), keep: None },
        Op::CreateFile { base: r, path: "d/a".into(), keep: Some(1) },
    ]
}

/// geometry grid G (pairwise-ish subset in the quick tier)
pub fn grid(th: bool) -> Vec<Cfg> {
    let mut v = Vec::new();
    let sectors: &[u16] = &[512, 1024, 2048, 4096];
    let spcs: &[u32] = &[1, 2, 4, 8, 16, 32, 64, 128];
    let mut i = 0usize;
    for &bps in sectors {
        for &spc in spcs {
            if bps as u32 * spc > 65536 && !th {
                continue;
            }
            for ft in [FatType::Fat12, FatType::Fat16, FatType::Fat32] {
                for fats in [1u8, 2] {
                    for big_root in [false, true] {
                        i += 1;
                        // FAT16/32 volumes need >= 4085/65525 clusters: image size = clusters * cluster size;
                        // keep the harness within memory: skip images above 160 MiB
                        let clusters: u64 = match ft {
                            FatType::Fat12 => 10,
                            FatType::Fat16 => 4085,
                            FatType::Fat32 => 65525,
                        };
                        if clusters * bps as u64 * spc as u64 > 160 << 20 {
                            continue;
                        }
                        if !th && i % 9 != 0 {
                            continue;
                        }
                        let root = if big_root { 512 } else { bps / 32 };
                        if ft == FatType::Fat32 && big_root {
                            continue;
                        }
                        if let Some(c) = geometry_cfg(ft, bps, spc, fats, root, 10) {
                            v.push(c);
                        }
                    }
                }
            }
        }
    }
    // fixed roots whose entry count does not fill whole sectors (the last root sector is partly used)
    for (ft, bps, spc, root) in [(FatType::Fat12, 512u16, 1u32, 200u16), (FatType::Fat16, 512, 2, 17), (FatType::Fat12, 1024, 4, 100)] {
        if let Some(c) = geometry_cfg(ft, bps, spc, 2, root, 10) {
            v.push(c);
        }
    }
    v
}

/// volume whose free clusters hold garbage (a used medium): 0xA5 filler with a few bytes that look like live
/// short-name entries; clusters of several sectors
pub fn garbage_cfg(ft: FatType, bps: u16, spc: u32) -> Option<Cfg> {
    let c = geometry_cfg(ft, bps, spc, 2, 64, 10)?;
    let harness::dev::Base::Bytes(img) = &*c.base else { return None };
    let mut img = img.clone();
    let g = vol::geo_of(&img);
    let cs = g.cluster_size() as usize;
    for cl in 2..=g.max_cluster() {
        if vol::get_fat(&img, &g, 0, cl) == 0 {
            let off = g.cluster_off(cl) as usize;
            for (i, b) in img[off..off + cs].iter_mut().enumerate() {
                *b = match i % 32 {
                    0..=7 => b'G',
                    8..=10 => b'H',
                    11 => 0x20,
                    _ => 0xA5,
                };
            }
        }
    }
    let mut c2 = c.clone();
    c2.base = std::sync::Arc::new(harness::dev::Base::Bytes(img));
    c2.name = format!("{}-garbage", c.name);
    Some(c2)
}

/// small alphabet for the used-medium volumes: a directory whose first sector fills up
pub fn garbage_alphabet() -> Vec<Op> {
    use harness::sess::DirRef;
    let r = DirRef::Root;
    vec![
        Op::CreateDir { base: r, path: "d".into(), keep: None },
        Op::CreateFile { base: r, path: format!("d/{}", "m".repeat(160)), keep: None },
        Op::CreateFile { base: r, path: "d/a".into(), keep: None },
        // the longest legal name: twenty long-name slots
        Op::CreateFile { base: r, path: format!("d/{}", "w".repeat(255)), keep: None },
        Op::CreateFile { base: r, path: "d/long-name-1.txt".into(), keep: None },
        Op::List { base: r, path: "d".into() },
        Op::Remove { base: r, path: format!("d/{}", "m".repeat(160)) },
        Op::CreateDir { base: r, path: "d/e".into(), keep: None },
        Op::Remount,
        // the ROOT directory fills up as well (on FAT32 it grows by a cluster of the used medium)
        Op::CreateFile { base: r, path: "m".repeat(160), keep: None },
        Op::CreateFile { base: r, path: "w".repeat(255), keep: None },
        Op::List { base: r, path: "".into() },
    ]
}

pub fn garbage_specs(th: bool) -> Vec<ExpSpec> {
    let mut v = Vec::new();
    for (ft, bps, spc) in [(FatType::Fat12, 512u16, 4u32), (FatType::Fat16, 512, 2), (FatType::Fat32, 512, 2)] {
        if let Some(c) = garbage_cfg(ft, bps, spc) {
            v.push(ExpSpec::new(c, garbage_alphabet(), if th { 5 } else { 4 }));
        }
    }
    // used media with sectors larger than 512 bytes (a zero-fill that counts in 512-byte units leaves a stale tail)
    for (ft, bps, spc) in [(FatType::Fat12, 1024u16, 1u32), (FatType::Fat16, 4096, 1), (FatType::Fat32, 1024, 2)] {
        if let Some(c) = garbage_cfg(ft, bps, spc) {
            v.push(ExpSpec::new(c, garbage_alphabet(), if th { 3 } else { 2 }));
        }
    }
    // used media with clusters above 32 KiB (legal, the library only warns): 64 KiB as 128 x 512 and as 16 x 4096 bytes
    // (a zero-fill through a bounded scratch buffer must still cover the whole cluster)
    for (ft, bps, spc) in [(FatType::Fat12, 512u16, 128u32), (FatType::Fat16, 4096, 16)] {
        if let Some(c) = garbage_cfg(ft, bps, spc) {
            v.push(ExpSpec::new(c, garbage_alphabet(), if th { 3 } else { 2 }));
        }
    }
    v
}

/// reused, non-blank clusters x short-transferring devices (the zero-fill of a new directory cluster has to cope with
/// partial transfers), and FAT32 volumes whose root directory does not start in cluster 2
pub fn ext_specs() -> Vec<ExpSpec> {
    use harness::builder::{Builder, MkSpec};
    let mut v = Vec::new();
    for s in trunc0_reopen_specs(false).into_iter().chain(garbage_specs(false)) {
        for (tag, sh) in [("-short", Short::Always), ("-blk7", Short::Block(7))] {
            let mut c = s.cfg.clone();
            c.name = format!("{}{}", s.cfg.name, tag);
            c.short = sh;
            v.push(ExpSpec { cfg: c, prefix: s.prefix.clone(), alphabet: s.alphabet.clone(), depth: 2 });
        }
    }
    for rc in [3u32, 5] {
        let mut s = MkSpec::new(32);
        s.root_cluster = rc;
        let mut b = Builder::new(s);
        let last = b.geo.max_cluster();
        let mut keep: Vec<u32> = (2..9).filter(|c| *c != rc).collect();
        keep.push(last);
        b.ballast(&keep);
        b.set_fsinfo(keep.len() as u32, 0xFFFF_FFFF);
        let mut cands = keep.clone();
        cands.push(rc);
        let cfg = vol::cfg_from(&format!("m32-root{rc}"), b.finish(), Some(cands));
        v.push(ExpSpec::new(cfg, alpha::mixed(512), 3));
    }
    v
}

pub fn specs(tier: &str, _prop: &str) -> Vec<ExpSpec> {
    let th = is_thorough(tier);
    let mut v = ext_specs();
    for ft in [FatType::Fat12, FatType::Fat16, FatType::Fat32] {
        let cfg = vol::tiny_with(ft, 8, 16);
        v.push(ExpSpec::new(cfg.clone(), alpha::mixed(512), if th { 6 } else { 4 }));
        let mut c2 = cfg;
        c2.name = format!("{}-short", c2.name);
        c2.short = Short::Always;
        v.push(ExpSpec::new(c2.clone(), alpha::mixed(512), if th { 4 } else { 3 }));
        let mut c3 = c2;
        c3.name = c3.name.replace("-short", "-blk7");
        c3.short = Short::Block(7);
        v.push(ExpSpec::new(c3, alpha::mixed(512), if th { 4 } else { 2 }));
    }
    // two free clusters: calls that fail for lack of space in the middle of a short history
    for ft in [FatType::Fat12, FatType::Fat16, FatType::Fat32] {
        v.push(ExpSpec::new(vol::tiny_low(ft, 2, 16), alpha::mixed(512), if th { 5 } else { 4 }));
    }
    // advancing clock + access-date updates: the entry editors of directories and of temporaries become dirty, so
    // write-backs of a directory's own entry happen (and may land in slots that were deleted / moved meanwhile)
    for ft in [FatType::Fat12, FatType::Fat32] {
        let mut c = vol::tiny_with(ft, 8, 16);
        c.name = format!("{}-clock-atime", c.name);
        c.ticking = true;
        c.atime = true;
        v.push(ExpSpec::new(c, alpha::mixed(512), if th { 4 } else { 3 }));
    }
    v.extend(name_specs(th));
    // FAT32 cluster numbers above 0xFFFF (high word of the first-cluster field in use)
    v.push(ExpSpec::new(vol::t32_high(), alpha::mixed(512), if th { 4 } else { 3 }));
    // FAT copies and mirroring modes (builder volumes): three mirrored copies, mirroring off with the second / third
    // copy active (the independent decoder reads the active copy)
    v.push(ExpSpec::new(crate::c10::mk(16, 3, 0, 0, 5, "m16-3f"), alpha::mixed(512), if th { 4 } else { 3 }));
    v.push(ExpSpec::new(crate::c10::mk(32, 2, 0x81, 0, 5, "m32-2f-active1"), alpha::mixed(512), if th { 4 } else { 3 }));
    v.push(ExpSpec::new(crate::c10::mk(32, 3, 0x82, 0xA, 5, "m32-3f-active2-nibA"), alpha::mixed(512), if th { 4 } else { 3 }));
    // the allocator really wraps: the hint points at the upper free clusters, the last cluster of the volume is not
    // free, lower clusters are free (a chain that is being extended continues below the hint)
    {
        let c = vol::tiny_with(FatType::Fat32, 8, 16);
        if let harness::dev::Base::Bytes(img) = &*c.base {
            let mut img = img.clone();
            let g = vol::geo_of(&img);
            let frees: Vec<u32> = c.candidates.as_ref().unwrap().iter().copied().filter(|cl| vol::get_fat(&img, &g, 0, *cl) == 0).collect();
            let last = *frees.last().unwrap();
            vol::set_fat(&mut img, &g, last, g.bad_mark());
            vol::set_fsinfo(&mut img, Some(frees.len() as u32 - 1), Some(frees[frees.len() - 3]));
            let mut c2 = c.clone();
            c2.base = std::sync::Arc::new(harness::dev::Base::Bytes(img));
            c2.name = "t32-f7-wrap".into();
            v.push(ExpSpec::new(c2, alpha::mixed(512), if th { 4 } else { 3 }));
        }
    }
    // single FAT copy
    for ft in [FatType::Fat12, FatType::Fat32] {
        if let Some(c) = geometry_cfg(ft, 512, 1, 1, 16, 8) {
            v.push(ExpSpec::new(c, alpha::mixed(512), if th { 4 } else { 3 }));
        }
    }
    for c in grid(th) {
        let cs = {
            let st = harness::dev::DevState::new(c.base.clone());
            let b = st.read_vec(0, 512);
            harness::decoder::parse_raw(&b).map(|g| g.cluster_size() as u32).unwrap_or(512)
        };
        v.push(ExpSpec::new(c.clone(), alpha::mixed(cs), 2));
        // the same geometry with two open files (one holding data in two clusters) and a directory: the two explored
        // calls then include writes, truncations, removals of entries with data and moves with these cluster sizes
        let mut c2 = c;
        c2.name = format!("{}-pre", c2.name);
        v.push(ExpSpec::new(c2, alpha::mixed(cs), 2).with_prefix(crate::c03::grid_prefix(cs)));
    }
    v.extend(trunc0_reopen_specs(th));
    v.extend(garbage_specs(th));
    v.extend(fragmented_dir_specs(th));
    v.extend(full_dir_specs(th));
    v.extend(dot_target_specs(th));
    v.extend(dot_path_specs(th));
    v
}

/// paths that run through a ".." entry (the directory object reached that way wraps the child's ".." slot), with a
/// fixed and with an advancing clock
pub fn dot_path_specs(th: bool) -> Vec<ExpSpec> {
    use harness::sess::DirRef;
    let r = DirRef::Root;
    let s = |x: &str| x.to_string();
    let mut v = Vec::new();
    for ft in [FatType::Fat12, FatType::Fat32] {
        for ticking in [false, true] {
            let mut c = vol::tiny_with(ft, 8, 16);
            c.name = format!("{}-dotpath{}", c.name, if ticking { "-clock" } else { "" });
            c.ticking = ticking;
            c.atime = ticking;
            let prefix = vec![
                Op::CreateDir { base: r, path: s("d"), keep: None },
                Op::CreateDir { base: r, path: s("d/e"), keep: None },
                Op::CreateDir { base: r, path: s("k"), keep: None },
            ];
            let alphabet = vec![
                Op::Rename { base: r, src: s("d/e/../e"), dst_base: r, dst: s("x") },
                Op::Rename { base: r, src: s("d/e/../e"), dst_base: r, dst: s("k/y") },
                Op::Remove { base: r, path: s("d/e/../e") },
                Op::CreateFile { base: r, path: s("d/e/../f"), keep: None },
                Op::CreateDir { base: r, path: s("d/e/../g"), keep: None },
                Op::OpenDir { base: r, path: s("d/e/.."), keep: Some(0) },
                Op::Rename { base: r, src: s("d/e"), dst_base: r, dst: s("k/z") },
                // a directory that was moved INTO THE ROOT is used as an ancestor afterwards (its ".." has to say "root",
                // i.e. 0, on FAT32 too) and is left through its ".."
                Op::Rename { base: r, src: s("k"), dst_base: r, dst: s("x/k2") },
                Op::List { base: r, path: s("x/..") },
                Op::CreateFile { base: DirRef::H(0), path: s("via-handle"), keep: None },
                Op::List { base: DirRef::H(0), path: s("") },
                Op::DropDir { d: 0 },
                Op::List { base: r, path: s("d") },
                Op::Remount,
            ];
            v.push(ExpSpec::new(c, alphabet, if th { 4 } else { 3 }).with_prefix(prefix));
        }
    }
    v
}

/// names the mixed alphabet does not contain: non-ASCII with a case partner, the longest legal name, a directory moved
/// into its direct child
pub fn name_specs(th: bool) -> Vec<ExpSpec> {
    use harness::sess::DirRef;
    let r = DirRef::Root;
    let s = |x: &str| x.to_string();
    let mut v = Vec::new();
    for ft in [FatType::Fat12, FatType::Fat32] {
        let mut c = vol::tiny_with(ft, 8, 16);
        c.name = format!("{}-names", c.name);
        let w255 = "w".repeat(255);
        let alphabet = vec![
            Op::CreateDir { base: r, path: s("d"), keep: None },
            Op::Rename { base: r, src: s("d"), dst_base: r, dst: s("d/z") },
            Op::CreateFile { base: r, path: s("\u{e9}t\u{e9}.txt"), keep: None },
            Op::CreateFile { base: r, path: s("\u{c9}T\u{c9}.TXT"), keep: None },
            Op::CreateDir { base: r, path: s("stra\u{df}e"), keep: None },
            Op::CreateFile { base: r, path: s("STRASSE/a"), keep: None },
            Op::CreateFile { base: r, path: format!("d/{w255}"), keep: None },
            Op::OpenFile { base: r, path: format!("d/{}", w255.to_uppercase()), keep: None },
            Op::Rename { base: r, src: format!("d/{w255}"), dst_base: r, dst: s("d/short") },
            Op::Remove { base: r, path: s("\u{c9}t\u{e9}.txt") },
            Op::List { base: r, path: s("") },
            Op::List { base: r, path: s("d") },
            Op::Remount,
        ];
        v.push(ExpSpec::new(c, alphabet, if th { 4 } else { 3 }).with_prefix(vec![]));
    }
    v
}

/// the dot entries of a directory as the target of remove / rename (they must be refused; the image stays valid)
pub fn dot_target_specs(th: bool) -> Vec<ExpSpec> {
    use harness::sess::DirRef;
    let r = DirRef::Root;
    let s = |x: &str| x.to_string();
    let mut v = Vec::new();
    for ft in [FatType::Fat12, FatType::Fat32] {
        let mut c = vol::tiny_with(ft, 8, 16);
        c.name = format!("{}-dots", c.name);
        let prefix = vec![
            Op::CreateDir { base: r, path: s("d"), keep: None },
            Op::CreateDir { base: r, path: s("d/e"), keep: None },
            Op::CreateFile { base: r, path: s("d/a"), keep: None },
        ];
        let mut alphabet = vec![
            Op::Remove { base: r, path: s("d/e/.") },
            Op::Remove { base: r, path: s("d/e/..") },
            Op::Remove { base: r, path: s("d/.") },
            Op::Rename { base: r, src: s("d/e/."), dst_base: r, dst: s("x") },
            Op::Rename { base: r, src: s("d/e/.."), dst_base: r, dst: s("y") },
            Op::Rename { base: r, src: s("d/."), dst_base: r, dst: s("d/e/z") },
            Op::Remove { base: r, path: s("d/e") },
            Op::Remove { base: r, path: s("d/a") },
            Op::Remove { base: r, path: s("d") },
            Op::CreateFile { base: r, path: s("d/e/b"), keep: None },
            Op::List { base: r, path: s("d/e") },
            Op::Remount,
        ];
        if th {
            alphabet.push(Op::Rename { base: r, src: s("d/e"), dst_base: r, dst: s("e") });
        }
        v.push(ExpSpec::new(c, alphabet, if th { 4 } else { 3 }).with_prefix(prefix));
    }
    v
}

/// completely full volume whose directory /d has five free slots left in its only cluster: an entry set of nine
/// slots needs a new cluster in the middle (defect D19: the slots written up to there stayed behind as orphans)
pub fn full_dir_specs(th: bool) -> Vec<ExpSpec> {
    use harness::sess::{DirRef, SeekSpec};
    let r = DirRef::Root;
    let mut v = Vec::new();
    for ft in [FatType::Fat12, FatType::Fat16, FatType::Fat32] {
        let mut c = vol::tiny_with(ft, 8, 16);
        c.name = format!("{}-fulldir", c.name);
        let prefix = vec![
            Op::CreateDir { base: r, path: "d".into(), keep: None },
            Op::CreateFile { base: r, path: format!("d/{}", "k".repeat(100)), keep: None },
            Op::CreateFile { base: r, path: "a".into(), keep: Some(0) },
            Op::WriteAll { h: 0, len: 1025 },
            Op::WriteAll { h: 0, len: 1025 },
            Op::WriteAll { h: 0, len: 1025 },
        ];
        let alphabet = vec![
            Op::CreateFile { base: r, path: format!("d/{}", "m".repeat(100)), keep: None },
            Op::CreateDir { base: r, path: format!("d/{}", "q".repeat(100)), keep: None },
            Op::Rename { base: r, src: "a".into(), dst_base: r, dst: format!("d/{}", "n".repeat(100)) },
            Op::Rename { base: r, src: format!("d/{}", "k".repeat(100)), dst_base: r, dst: format!("d/{}", "j".repeat(70)) },
            // twenty-one slots = 672 bytes: more than one 512-byte cluster, so the directory has to grow by two clusters
            Op::CreateFile { base: r, path: format!("d/{}", "w".repeat(255)), keep: None },
            Op::CreateFile { base: r, path: "d/b".into(), keep: None },
            Op::CreateFile { base: r, path: "d/long-name-1.txt".into(), keep: None },
            Op::Remove { base: r, path: format!("d/{}", "k".repeat(100)) },
            Op::Seek { h: 0, pos: SeekSpec::Start(0) },
            Op::Seek { h: 0, pos: SeekSpec::Start(2049) },
            // (truncating the 3075-byte file here frees exactly one cluster)
            Op::Seek { h: 0, pos: SeekSpec::Start(3072) },
            Op::Truncate { h: 0 },
            Op::Write { h: 0, len: 513 },
            Op::Flush { h: 0 },
            Op::List { base: r, path: "d".into() },
            Op::Remount,
        ];
        v.push(ExpSpec::new(c, alphabet, if th { 6 } else { 4 }).with_prefix(prefix));
    }
    v
}

/// directory /d spans two clusters that are not adjacent (a file sits between them); the short entry of
/// d/long-name-5.txt is the first slot of the second cluster
pub fn fragmented_dir_specs(th: bool) -> Vec<ExpSpec> {
    use harness::sess::{DirRef, SeekSpec};
    let r = DirRef::Root;
    let mut v = Vec::new();
    for ft in [FatType::Fat12, FatType::Fat32] {
        let mut c = vol::tiny_with(ft, 12, 16);
        c.name = format!("{}-fragdir", c.name);
        let mut prefix = vec![
            Op::CreateDir { base: r, path: "d".into(), keep: None },
            Op::CreateFile { base: r, path: "victim".into(), keep: Some(0) },
            Op::WriteAll { h: 0, len: 512 },
            Op::DropFile { h: 0 },
        ];
        for i in 1..=5 {
            prefix.push(Op::CreateFile { base: r, path: format!("d/long-name-{i}.txt"), keep: None });
        }
        let alphabet = vec![
            Op::OpenFile { base: r, path: "d/long-name-5.txt".into(), keep: Some(0) },
            Op::OpenFile { base: r, path: "d/long-name-4.txt".into(), keep: Some(1) },
            Op::Write { h: 0, len: 1 },
            Op::Write { h: 1, len: 513 },
            Op::Flush { h: 0 },
            Op::DropFile { h: 0 },
            Op::DropFile { h: 1 },
            Op::Seek { h: 0, pos: SeekSpec::Start(0) },
            Op::Truncate { h: 0 },
            Op::Remove { base: r, path: "d/long-name-5.txt".into() },
            Op::Rename { base: r, src: "d/long-name-5.txt".into(), dst_base: r, dst: "d/renamed-5.txt".into() },
            Op::Rename { base: r, src: "d/long-name-4.txt".into(), dst_base: r, dst: "moved-4.txt".into() },
            Op::CreateFile { base: r, path: "d/long-name-6.txt".into(), keep: None },
            Op::List { base: r, path: "d".into() },
            Op::Remount,
        ];
        v.push(ExpSpec::new(c, alphabet, if th { 5 } else { 4 }).with_prefix(prefix));
        // variant: the short entry of d/x is the LAST slot of the first directory cluster, and the directory goes on in a
        // cluster that is not adjacent (victim sits between them)
        let mut c = vol::tiny_with(ft, 12, 16);
        c.name = format!("{}-fragdir-lastslot", c.name);
        let mut prefix = vec![
            Op::CreateDir { base: r, path: "d".into(), keep: None },
            Op::CreateFile { base: r, path: "victim".into(), keep: Some(0) },
            Op::WriteAll { h: 0, len: 512 },
            Op::DropFile { h: 0 },
        ];
        for i in 1..=4 {
            prefix.push(Op::CreateFile { base: r, path: format!("d/long-name-{i}.txt"), keep: None });
        }
        prefix.push(Op::CreateFile { base: r, path: "d/x".into(), keep: None });
        prefix.push(Op::CreateFile { base: r, path: "d/long-name-5.txt".into(), keep: None });
        let alphabet = vec![
            Op::OpenFile { base: r, path: "d/x".into(), keep: Some(0) },
            Op::Write { h: 0, len: 1 },
            Op::Flush { h: 0 },
            Op::DropFile { h: 0 },
            Op::Rename { base: r, src: "d/x".into(), dst_base: r, dst: "d/y".into() },
            Op::Remove { base: r, path: "d/x".into() },
            Op::List { base: r, path: "d".into() },
            Op::Remount,
        ];
        v.push(ExpSpec::new(c, alphabet, if th { 4 } else { 3 }).with_prefix(prefix));
    }
    v
}

/// a file that was cut to nothing and closed; the volume is mounted again, so the allocator starts at
/// the bottom and hands the clusters the file used to own to the next object. Whoever reopens the file then must not
/// find a first cluster in its entry.
pub fn trunc0_reopen_specs(th: bool) -> Vec<ExpSpec> {
    use harness::sess::{DirRef, SeekSpec};
    let r = DirRef::Root;
    let s = |x: &str| x.to_string();
    let mut v = Vec::new();
    for ft in [FatType::Fat12, FatType::Fat16, FatType::Fat32] {
        let mut c = vol::tiny_with(ft, 8, 16);
        c.name = format!("{}-trunc0-reopen", c.name);
        let prefix = vec![
            Op::CreateFile { base: r, path: s("a"), keep: Some(0) },
            Op::WriteAll { h: 0, len: 1025 },
            Op::Seek { h: 0, pos: SeekSpec::Start(0) },
            Op::Truncate { h: 0 },
            Op::DropFile { h: 0 },
            Op::Remount,
        ];
        let alphabet = vec![
            Op::CreateFile { base: r, path: s("b"), keep: Some(1) },
            Op::WriteAll { h: 1, len: 513 },
            Op::CreateDir { base: r, path: s("d"), keep: None },
            Op::OpenFile { base: r, path: s("a"), keep: Some(0) },
            Op::Write { h: 0, len: 1 },
            Op::WriteAll { h: 0, len: 513 },
            Op::Flush { h: 0 },
            Op::DropFile { h: 0 },
            Op::DropFile { h: 1 },
            Op::List { base: r, path: s("") },
            Op::Remount,
        ];
        v.push(ExpSpec::new(c, alphabet, if th { 5 } else { 4 }).with_prefix(prefix));
    }
    v
}
