//! Shared driver for explorer-based checks.

use std::time::{Duration, Instant};

use harness::explore::{self, Checker, Limits, Stats, Violation};
use harness::report::{self, Report};
use harness::sess::{self, Cfg, Op, Plan};
use serde_json::{json, Value};

pub struct ExpSpec {
    pub cfg: Cfg,
    /// operations executed before the explored history (not counted in the depth)
    pub prefix: Vec<Op>,
    pub alphabet: Vec<Op>,
    pub depth: usize,
}

impl ExpSpec {
    pub fn new(cfg: Cfg, alphabet: Vec<Op>, depth: usize) -> Self {
        ExpSpec { cfg, prefix: vec![], alphabet, depth }
    }
    pub fn with_prefix(mut self, p: Vec<Op>) -> Self {
        self.prefix = p;
        self
    }
}

pub fn is_thorough(tier: &str) -> bool {
    tier == "thorough"
}

pub fn wall_budget(tier: &str) -> Duration {
    // the quick figure is a safety cap for a loaded machine, not the expected duration (every quick tier finishes its
    // stated bounds in about a minute or less on the idle 16-core sandbox; on a loaded machine a run takes longer rather than covering less; a cap that was hit is reported in the evidence)
    let def = if is_thorough(tier) { 900.0 } else { 600.0 };
    let s = std::env::var("VERIF_WALL_S").ok().and_then(|s| s.parse::<f64>().ok()).unwrap_or(def);
    Duration::from_secs_f64(s)
}

pub fn sample_histories(specs: &[ExpSpec], n: usize) -> Vec<Value> {
    let mut out = Vec::new();
    for s in specs.iter().take(n) {
        let k = s.alphabet.len();
        if k == 0 {
            continue;
        }
        let h: Vec<String> = (0..s.depth.min(4)).map(|i| format!("{:?}", s.alphabet[(i * 7 + 3) % k])).collect();
        out.push(json!({"config": s.cfg.name, "history": h}));
    }
    out
}

pub fn run_explorer(
    prop: &str,
    tier: &str,
    specs: Vec<ExpSpec>,
    checker: &dyn Checker,
    technique: &str,
    assumptions: Vec<String>,
) -> i32 {
    run_explorer_ext(prop, tier, specs, checker, technique, assumptions, "model_checking", &|_| {})
}

/// `extra` may add keys to the coverage object (after the exploration finished); `level` is the evidence level
#[allow(clippy::too_many_arguments)]
pub fn run_explorer_ext(
    prop: &str,
    tier: &str,
    specs: Vec<ExpSpec>,
    checker: &dyn Checker,
    technique: &str,
    assumptions: Vec<String>,
    level: &str,
    extra: &dyn Fn(&mut Report),
) -> i32 {
    let t0 = Instant::now();
    let deadline = t0 + wall_budget(tier);
    let mut total = Stats::default();
    let mut rep = Report::new(prop, tier, level);
    let mut per_cfg = Vec::new();
    let mut seen_sigs = std::collections::BTreeSet::new();
    // cheapest configurations first: what they leave of their share goes to the expensive ones
    let mut specs = specs;
    specs.sort_by(|a, b| {
        let ca = (a.alphabet.len() as f64).powi(a.depth as i32);
        let cb = (b.alphabet.len() as f64).powi(b.depth as i32);
        ca.partial_cmp(&cb).unwrap_or(std::cmp::Ordering::Equal)
    });
    let nspecs = specs.len();
    for (si, spec) in specs.iter().enumerate() {
        // split the remaining wall budget fairly among the remaining configurations
        let now = Instant::now();
        let remaining = deadline.saturating_duration_since(now);
        // (a configuration may take up to a third of what is left: the cost estimate that orders them is rough)
        let share = (remaining / (nspecs - si) as u32).max(remaining / 3);
        if remaining.is_zero() {
            // the wall budget is used up: a configuration that cannot even start is reported as capped (running its
            // initial state alone can take minutes on the largest volume shapes)
            eprintln!("[{prop}] {}: NOT STARTED (wall budget exhausted) CAPPED", spec.cfg.name);
            let mut st = Stats::default();
            st.capped = Some("not started: the wall budget was exhausted by the configurations before it".into());
            per_cfg.push(json!({
                "config": spec.cfg.name,
                "alphabet_size": spec.alphabet.len(),
                "depth_requested": spec.depth,
                "prefix": spec.prefix.iter().map(|o| format!("{o:?}")).collect::<Vec<_>>(),
                "stats": report::stats_json(&st),
            }));
            continue;
        }
        let limits = Limits { deadline: Some(now + share.max(Duration::from_millis(200))), ..Default::default() };
        let (st, viols) = explore::explore(prop, &spec.cfg, &spec.prefix, &spec.alphabet, spec.depth, checker, &limits);
        eprintln!(
            "[{prop}] {}: depth {} (completed {}), alphabet {}, states {}, transitions {}, {:.1}s{}",
            spec.cfg.name,
            spec.depth,
            st.max_depth_completed,
            spec.alphabet.len(),
            st.states,
            st.transitions,
            st.wall_s,
            st.capped.as_ref().map(|c| format!(" CAPPED: {c}")).unwrap_or_default()
        );
        if !st.never_executed.is_empty() && spec.depth >= 3 {
            eprintln!("[{prop}] {}: {} alphabet entries never enabled: {:?}", spec.cfg.name, st.never_executed.len(), &st.never_executed[..st.never_executed.len().min(4)]);
        }
        per_cfg.push(json!({
            "config": spec.cfg.name,
            "alphabet_size": spec.alphabet.len(),
            "depth_requested": spec.depth,
            "prefix": spec.prefix.iter().map(|o| format!("{o:?}")).collect::<Vec<_>>(),
            "stats": report::stats_json(&st),
        }));
        total.merge(&st);
        for v in viols {
            if seen_sigs.insert(v.sig.clone()) {
                let payload = json!({
                    "check": prop,
                    "config": v.cfg,
                    "ops": v.hist.iter().map(|o| format!("{o:?}")).collect::<Vec<_>>(),
                });
                rep.add(v, payload);
            }
        }
    }
    let capped: Vec<&Value> = per_cfg.iter().filter(|c| !c["stats"]["capped"].is_null()).collect();
    let exhaustive = capped.is_empty();
    rep.coverage = json!({
        "states": total.states,
        "transitions": total.transitions,
        "traces_validated_against_impl": total.transitions,
        "samples": if total.samples.is_empty() { sample_histories(&specs, 3) } else { total.samples.iter().map(|(h, t)| json!({"history": h, "outcome_of_last_call": t})).collect::<Vec<_>>() },
        "exhaustive": exhaustive,
        "technique": technique,
        "explanation": "explicit-state BFS over operation histories; every transition is executed on the real fatfs crate (replay from the initial image), so every explored trace is an implementation trace; states de-duplicated on (image overlay, hidden FileSystem/File/Dir state, model state)",
        "configs": per_cfg,
        "outcome_histogram": total.outcomes,
        "distinct_outcomes": total.outcomes.len(),
        "determinism_rechecks": total.determinism_rechecks,
        "states_with_two_or_more_handles": total.two_handle_states,
        "states_at_zero_free_clusters": total.full_states,
        "capped_configs": capped.len(),
    });
    rep.assumptions = assumptions;
    extra(&mut rep);
    rep.wall_s = t0.elapsed().as_secs_f64();
    rep.finish()
}

/// Replay one violation file produced by `run_explorer`.
pub fn replay_explorer(prop: &str, path: &str, specs: Vec<ExpSpec>, checker: &dyn Checker) -> i32 {
    let s = std::fs::read_to_string(path).expect("replay file");
    let v: Value = serde_json::from_str(&s).expect("json");
    let r = &v["replay"];
    let cfgname = r["config"].as_str().unwrap_or("");
    let Some(spec) = specs.iter().find(|s| s.cfg.name == cfgname) else {
        eprintln!("MACHINERY ERROR: unknown config {cfgname}");
        return 2;
    };
    let mut ops = Vec::new();
    for o in r["ops"].as_array().cloned().unwrap_or_default() {
        let o = o.as_str().unwrap_or("").to_string();
        match spec.alphabet.iter().chain(spec.prefix.iter()).find(|a| format!("{a:?}") == o) {
            Some(a) => ops.push(a.clone()),
            None => {
                eprintln!("MACHINERY ERROR: op {o} not in the alphabet of {cfgname}");
                return 2;
            }
        }
    }
    println!("replaying {} ops on {cfgname}", ops.len());
    let plan: Plan = checker.plan();
    let mut bad = false;
    for n in 1..=ops.len() {
        let ex = sess::run(&spec.cfg, &ops[..n], &plan);
        let ex2 = sess::run(&spec.cfg, &ops[..n], &plan);
        if ex.key != ex2.key || ex.outs != ex2.outs {
            eprintln!("MACHINERY ERROR: replay diverged at step {n}");
            return 2;
        }
        let vs = checker.check(&spec.cfg, &ops[..n], &ex);
        println!("step {n}: {:?} -> {:?}", ops[n - 1], ex.outs.last());
        if let Some((i, m)) = &ex.panic {
            println!("   PANIC at op {i}: {m}");
            bad = true;
        }
        for (sig, msg) in vs {
            println!("   VIOLATED {sig}: {msg}");
            bad = true;
        }
    }
    if bad {
        println!("VIOLATION property={prop} replay={path}");
        1
    } else {
        println!("replay: property held on this history");
        0
    }
}

pub fn violation(prop: &str, sig: &str, msg: &str, cfg: &str) -> Violation {
    Violation { prop: prop.into(), sig: sig.into(), msg: msg.into(), cfg: cfg.into(), hist: vec![], extra: String::new(), count: 1 }
}
