//! C08 — any specification-valid volume made by someone else is read faithfully and modified minimally.
//! Full product of a declared grid of encoding freedoms (independent builder) x read phase x 10 mutations.

use std::cell::Cell;
use std::collections::{BTreeMap, BTreeSet};
use std::rc::Rc;
use std::sync::atomic::{AtomicU64, Ordering};
use std::sync::Arc;
use std::time::Instant;

use fatfs::{Read, Seek, SeekFrom, Write};
use harness::builder::{self, Builder, MkSpec, Times};
use harness::decoder::{self, DecodeOpts, Decoded, Region};
use harness::dev::{new_dev, Base, DevState, MemDev};
use harness::report::Report;
use harness::sess::{self, Cfg};
use rayon::prelude::*;
use serde_json::json;

use crate::c06::panic_class;
use crate::common::{is_thorough, violation, wall_budget};

#[derive(Clone, Debug)]
pub struct Gt {
    pub path: String,
    pub is_dir: bool,
    pub attr: u8,
    pub size: u32,
    pub content: Vec<u8>,
    pub short: String,
    pub units: Option<Vec<u16>>,
    pub t: Times,
}

#[derive(Clone, Debug)]
pub struct Spec {
    pub width: u8,
    pub bps: u32,
    pub spc: u32,
    pub nfats: u32,
    pub ext_flags: u16,
    pub eoc_high: bool,
    pub nibble: u32,
    pub layout: u8,
    pub dirty: bool,
    /// FAT32: the information sector carries no free count (0xFFFFFFFF) - statistics have to recount the table
    pub count_unknown: bool,
}

impl Spec {
    pub fn name(&self) -> String {
        format!(
            "fat{}-{}x{}-{}f-{}-eoc{}-nib{:x}-layout{}-{}{}",
            self.width,
            self.bps,
            self.spc,
            self.nfats,
            if self.ext_flags == 0 { "mirror".to_string() } else if self.ext_flags & 0x80 == 0 { format!("mirror-stale{}", self.ext_flags & 0xF) } else { format!("active{}", self.ext_flags & 0xF) },
            if self.eoc_high { "hi" } else { "lo" },
            self.nibble,
            self.layout,
            if self.dirty { "dirty" } else { "clean" },
            if self.count_unknown { "-nocount" } else { "" }
        )
    }
}

pub fn grid(th: bool) -> Vec<Spec> {
    let mut v = Vec::new();
    let geos: Vec<(u8, u32, u32)> = vec![
        (12, 512, 1),
        (12, 512, 8),
        (12, 4096, 1),
        (12, 4096, 8),
        (16, 512, 1),
        (16, 512, 8),
        (16, 4096, 1),
        (32, 512, 1),
    ];
    for (width, bps, spc) in geos {
        for nfats in 1..=3u32 {
            // FAT32: mirrored, mirrored with a stale active-copy number (meaningless while mirroring is on), each active copy
            let modes: Vec<u16> = if width == 32 {
                std::iter::once(0u16).chain((nfats > 1).then_some(nfats as u16 - 1)).chain((0..nfats as u16).map(|a| 0x80 | a)).collect()
            } else {
                vec![0]
            };
            for ext_flags in modes {
                for nibble in if width == 32 { vec![0u32, 0xA] } else { vec![0] } {
                    for count_unknown in if width == 32 { vec![false, true] } else { vec![false] } {
                        for eoc_high in [false, true] {
                            for layout in 0..4u8 {
                                for dirty in [false, true] {
                                    v.push(Spec { width, bps, spc, nfats, ext_flags, eoc_high, nibble, layout, dirty, count_unknown });
                                }
                            }
                        }
                    }
                }
            }
        }
    }
    if !th {
        // quarter of the grid, chosen so that every pair of values of two different dimensions still occurs together
        // (checked by enumeration when the filter was written)
        v = v.into_iter().enumerate().filter(|(i, _)| (i + i / 4 + i / 16 + i / 64) % 4 == 0).map(|(_, s)| s).collect();
    }
    v
}

fn weird_times() -> Times {
    Times { ctime_tenth: 250, ctime: 0xFFFF, cdate: 0xFFFF, adate: 0x01E0, mtime: 0xBF7D, mdate: 0x0000 }
}

fn normal_times(i: u16) -> Times {
    Times {
        ctime_tenth: (i * 7 % 200) as u8,
        ctime: builder::dos_time(10 + i % 10, 20 + i, 2 * (i % 30)),
        cdate: builder::dos_date(1999 + i, 1 + i % 12, 1 + i % 28),
        adate: builder::dos_date(2001 + i, 2, 3),
        mtime: builder::dos_time(23, 59, 58),
        mdate: builder::dos_date(2107, 12, 31),
    }
}

fn pattern(tag: u8, len: usize) -> Vec<u8> {
    (0..len).map(|i| (i as u8).wrapping_mul(31).wrapping_add(tag) | 1).collect()
}

/// Build one foreign volume; returns (image, ground truth, clusters left free)
pub fn build(spec: &Spec) -> (Vec<u8>, Vec<Gt>, Vec<u32>) {
    let mut ms = MkSpec::new(spec.width);
    ms.bps = spec.bps;
    ms.spc = spec.spc;
    ms.nfats = spec.nfats;
    ms.ext_flags = spec.ext_flags;
    if spec.ext_flags != 0 && spec.ext_flags & 0x80 == 0 && spec.eoc_high {
        // mirroring on: the active-copy number is meaningless, any value is legal - also one that is not a copy
        ms.ext_flags = 0x000F;
    }
    ms.nibble = spec.nibble;
    ms.status = if spec.dirty { 1 } else { 0 };
    ms.eoc = if spec.eoc_high { ms.eoc } else { ms.eoc_low() };
    ms.root_entries = if spec.width == 32 { 0 } else { 128 };
    if spec.width == 12 {
        ms.clusters = 120;
    }
    if spec.width == 32 {
        // more than 65536 clusters: the last clusters (used by layout 3) need the high word of the first-cluster field
        ms.clusters = 66_600;
        if spec.nfats == 3 {
            // information sector and backup boot sector somewhere else than the usual 1 / 6
            ms.fsinfo_sector = 2;
            ms.backup_sector = 9;
        }
    }
    if spec.width != 32 {
        ms.reserved = 3;
    }
    let mut b = Builder::new(ms);
    let cs = b.geo.cluster_size() as usize;
    let last = b.geo.max_cluster();
    let first = if spec.width == 32 { 3u32 } else { 2 };
    // cluster pool: 40 low clusters + the last two
    let mut next = first;
    let mut take = |n: usize| -> Vec<u32> {
        let v: Vec<u32> = (next..next + n as u32).collect();
        next += n as u32;
        v
    };
    let per_slot = cs / 32;
    // chains
    let root_chain: Vec<u32> = if spec.width == 32 { std::iter::once(2).chain(take((96 + per_slot - 1) / per_slot)).take((96 + per_slot - 1) / per_slot).collect() } else { vec![] };
    let d1 = take(1);
    let d2 = take(1);
    let d3 = take(1);
    let dempty = take(1);
    let dattr = take(1);
    let mut one = take(1);
    let mut oneplus = take(2);
    let mut three = take(3);
    let mut long255 = take(1);
    let deep = take(1);
    match spec.layout {
        0 => {}
        1 => {
            oneplus.reverse();
            three.reverse();
        }
        2 => {
            // interleave ONEPLUS and THREE: a b a b b
            let all: Vec<u32> = oneplus.iter().chain(three.iter()).copied().collect();
            oneplus = vec![all[0], all[2]];
            three = vec![all[1], all[3], all[4]];
        }
        _ => {
            // chains run through the very last clusters of the volume
            three = vec![three[0], last, three[1]];
            one = vec![last - 1];
            long255.reverse();
        }
    }
    let mut gt: Vec<Gt> = Vec::new();
    let mut root: Vec<[u8; 32]> = Vec::new();
    let tn = |i: u16| normal_times(i);
    let width = spec.width;
    let mut add_sfn = |slots: &mut Vec<[u8; 32]>, gt: &mut Vec<Gt>, dir: &str, sfn: &[u8; 11], attr: u8, nt: u8, t: Times, fc: u32, size: u32, content: Vec<u8>, units: Option<Vec<u16>>| {
        if let Some(u) = &units {
            slots.extend(builder::lfn_run(u, sfn));
        }
        // FAT12/16: the two bytes that hold the high word of the first cluster on FAT32 are not part of the cluster number
        // (other systems keep an extended-attribute handle there): junk in them must be ignored
        let fc_raw = if width != 32 && fc != 0 { fc | 0x0007_0000 } else { fc };
        slots.push(builder::sfn_slot(sfn, attr, nt, t, fc_raw, size));
        let name = match &units {
            Some(u) => String::from_utf16_lossy(u),
            None => decoder::short_display(sfn, nt),
        };
        let path = if dir == "/" { format!("/{name}") } else { format!("{dir}/{name}") };
        gt.push(Gt { path, is_dir: attr & 0x10 != 0, attr, size, content, short: decoder::short_display(sfn, 0), units, t });
    };
    // 1-3: short-name-only entries with every case-flag combination
    add_sfn(&mut root, &mut gt, "/", b"LOWER   TXT", 0x20, 0x18, tn(1), 0, 0, vec![], None);
    add_sfn(&mut root, &mut gt, "/", b"MIXED   TXT", 0x20, 0x08, tn(2), 0, 0, vec![], None);
    add_sfn(&mut root, &mut gt, "/", b"UPPER   TXT", 0x20, 0x10, tn(3), 0, 0, vec![], None);
    add_sfn(&mut root, &mut gt, "/", b"PLAIN   TXT", 0x20, 0x00, tn(4), 0, 0, vec![], None);
    // 4: 0x05 lead byte, 5: OEM bytes >= 0x80
    add_sfn(&mut root, &mut gt, "/", b"\x05BC     DAT", 0x20, 0, tn(5), 0, 0, vec![], None);
    add_sfn(&mut root, &mut gt, "/", b"CAF\x82    T\x99T", 0x20, 0, tn(6), 0, 0, vec![], None);
    // 6: a deleted run
    {
        let units: Vec<u16> = "deleted long name.tmp".encode_utf16().collect();
        let mut run = builder::lfn_run(&units, b"DELETE~1TMP");
        run.push(builder::sfn_slot(b"DELETE~1TMP", 0x20, 0, tn(7), 0, 0));
        for s in &mut run {
            s[0] = 0xE5;
        }
        root.extend(run);
    }
    // 7: an orphan long-name run (its checksum belongs to another name), then an ordinary short entry
    {
        let units: Vec<u16> = "orphan run of two slots".encode_utf16().collect();
        root.extend(builder::lfn_run(&units, b"NOSUCH~1   "));
    }
    add_sfn(&mut root, &mut gt, "/", b"AFTERORPBIN", 0x20, 0, tn(8), 0, 0, vec![], None);
    // 8: a removed old label (deleted slot with the volume-id attribute), then the live label in the middle of the root
    {
        let mut old = builder::sfn_slot(b"OLDLABEL   ", 0x08, 0, tn(9), 0, 0);
        old[0] = 0xE5;
        root.push(old);
    }
    // (other systems write the label with the archive bit set as well)
    root.push(builder::sfn_slot(b"VOL LABEL  ", if spec.layout % 2 == 1 { 0x28 } else { 0x08 }, 0, tn(9), 0, 0));
    // 9: attribute bits
    for (i, (sfn, attr)) in [(b"RDONLY  A  ", 0x01u8), (b"HIDDEN  A  ", 0x02), (b"SYSTEM  A  ", 0x04), (b"ARCHIVE A  ", 0x20), (b"ALLBITS A  ", 0x27), (b"NOBITS  A  ", 0x00)].iter().enumerate() {
        add_sfn(&mut root, &mut gt, "/", sfn, *attr, 0, tn(10 + i as u16), 0, 0, vec![], None);
    }
    // 10: out-of-range but decodable timestamps
    add_sfn(&mut root, &mut gt, "/", b"WEIRDTS BIN", 0x20, 0, weird_times(), 0, 0, vec![], None);
    // 11: a 255-unit name; 12: 13- and 26-unit names (no terminator in the last slot)
    let u255: Vec<u16> = (0..255).map(|i| 0x61 + (i % 26) as u16).collect();
    let c255 = pattern(7, 100);
    add_sfn(&mut root, &mut gt, "/", b"AAAAAA~1   ", 0x20, 0, tn(20), long255[0], 100, c255.clone(), Some(u255));
    b.write_file(&long255, &c255);
    let u13: Vec<u16> = "thirteen-long".encode_utf16().collect();
    let u26: Vec<u16> = "exactly-twenty-six-units.x".encode_utf16().collect();
    assert_eq!((u13.len(), u26.len()), (13, 26));
    add_sfn(&mut root, &mut gt, "/", b"THIRTE~1   ", 0x20, 0, tn(21), 0, 0, vec![], Some(u13));
    add_sfn(&mut root, &mut gt, "/", b"EXACTL~1X  ", 0x20, 0, tn(22), 0, 0, vec![], Some(u26));
    // non-ASCII long name (BMP) and a name with lower/upper mix
    let uni: Vec<u16> = "Grüße 日本.txt".encode_utf16().collect();
    add_sfn(&mut root, &mut gt, "/", b"GR__E_~1TXT", 0x20, 0, tn(23), 0, 0, vec![], Some(uni));
    // 13: nested directories three deep
    let nd: Vec<u16> = "Nested Dir".encode_utf16().collect();
    add_sfn(&mut root, &mut gt, "/", b"NESTED~1   ", 0x10, 0, tn(24), d1[0], 0, vec![], Some(nd));
    add_sfn(&mut root, &mut gt, "/", b"EMPTYDIR   ", 0x10, 0, tn(25), dempty[0], 0, vec![], None);
    add_sfn(&mut root, &mut gt, "/", b"HIDDENDR   ", 0x12, 0, tn(26), dattr[0], 0, vec![], None);
    // 14: files
    let c_one = pattern(1, cs);
    let c_oneplus = pattern(2, cs + 1);
    let c_three = pattern(3, 3 * cs);
    add_sfn(&mut root, &mut gt, "/", b"EMPTY   BIN", 0x20, 0, tn(27), 0, 0, vec![], None);
    // the empty file carries the foreign handle in bytes 20..21 as well (FAT12/16)
    if width != 32 {
        let l = root.len() - 1;
        root[l][20] = 0x07;
    }
    add_sfn(&mut root, &mut gt, "/", b"ONE     BIN", 0x20, 0, tn(28), one[0], cs as u32, c_one.clone(), None);
    add_sfn(&mut root, &mut gt, "/", b"ONEPLUS BIN", 0x20, 0, tn(29), oneplus[0], cs as u32 + 1, c_oneplus.clone(), None);
    add_sfn(&mut root, &mut gt, "/", b"THREE   BIN", 0x21, 0x18, tn(30), three[0], 3 * cs as u32, c_three.clone(), None);
    b.write_file(&one, &c_one);
    b.write_file(&oneplus, &c_oneplus);
    b.write_file(&three, &c_three);
    assert!(root.len() <= 96, "root population {} slots", root.len());
    b.write_dir(&root_chain, &root);
    // subdirectories
    let root_id = 0u32;
    let mut s1 = builder::dot_slots(d1[0], root_id, tn(24));
    add_sfn(&mut s1, &mut gt, "/Nested Dir", b"LEVEL2     ", 0x10, 0x08, tn(31), d2[0], 0, vec![], None);
    let inner: Vec<u16> = "inner file.dat".encode_utf16().collect();
    add_sfn(&mut s1, &mut gt, "/Nested Dir", b"INNERF~1DAT", 0x20, 0, tn(32), 0, 0, vec![], Some(inner));
    b.write_dir(&d1, &s1);
    let mut s2 = builder::dot_slots(d2[0], d1[0], tn(31));
    add_sfn(&mut s2, &mut gt, "/Nested Dir/level2", b"LEVEL3     ", 0x10, 0, tn(33), d3[0], 0, vec![], None);
    b.write_dir(&d2, &s2);
    let mut s3 = builder::dot_slots(d3[0], d2[0], tn(33));
    let c_deep = pattern(9, 77);
    add_sfn(&mut s3, &mut gt, "/Nested Dir/level2/LEVEL3", b"DEEP    TXT", 0x20, 0x10, tn(34), deep[0], 77, c_deep.clone(), None);
    b.write_file(&deep, &c_deep);
    b.write_dir(&d3, &s3);
    b.write_dir(&dempty, &builder::dot_slots(dempty[0], root_id, tn(25)));
    b.write_dir(&dattr, &builder::dot_slots(dattr[0], root_id, tn(26)));
    // free clusters for the write phase: eight after the pool
    let mut keep: Vec<u32> = (next..next + 8).collect();
    if spec.layout != 3 {
        keep.push(last);
    }
    b.ballast(&keep);
    // the free space of a foreign volume is never zero: stale directory-like junk in every free cluster
    {
        let junk: Vec<u8> = (0..cs).map(|i| if i % 32 == 0 { b'J' } else if i % 32 == 11 { 0x20 } else { 0x41 + (i % 23) as u8 }).collect();
        for c in &keep {
            b.write_cluster(*c, &junk);
        }
    }
    b.scribble_inactive();
    // a volume that was not unmounted cleanly carries a stale count (here 0) which has to be ignored
    let stale = spec.dirty;
    // other systems leave a next-free hint; it may point above every free cluster (here: the last cluster)
    let hint = if spec.eoc_high { last } else { 0xFFFF_FFFF };
    let low = false;
    b.set_fsinfo(if spec.count_unknown { 0xFFFF_FFFF } else if stale { 0 } else if low { 1 } else { keep.len() as u32 }, hint);
    (b.finish(), gt, keep)
}

fn dec_date(d: u16) -> (u16, u16, u16) {
    (1980 + (d >> 9), (d >> 5) & 0xF, d & 0x1F)
}
fn dec_time(t: u16, tenth: u8) -> (u16, u16, u16, u16) {
    (t >> 11, (t >> 5) & 0x3F, (t & 0x1F) * 2 + (tenth / 100) as u16, (tenth % 100) as u16 * 10)
}

/// read phase: everything the library reports vs the ground truth
fn read_phase(cfg: &Cfg, gt: &[Gt]) -> Vec<(String, String)> {
    let (st, _d) = new_dev(&cfg.base);
    st.borrow_mut().logging = true;
    let ctr = Rc::new(Cell::new(0u32));
    let r = sess::guarded(|| -> Result<(), (String, String)> {
        let fs = sess::mount(MemDev::new(st.clone()), cfg, &ctr).map_err(|e| ("C08/read/mount-failed".to_string(), format!("{:?}", sess::ek(e))))?;
        let mut seen: BTreeMap<String, ()> = BTreeMap::new();
        fn walk(
            dir: &sess::FDir,
            path: &str,
            gt: &[Gt],
            seen: &mut BTreeMap<String, ()>,
        ) -> Result<(), (String, String)> {
            for e in dir.iter() {
                let e = e.map_err(|e| ("C08/read/iteration-error".to_string(), format!("{path}: {:?}", sess::ek(e))))?;
                let name = e.file_name();
                if name == "." || name == ".." {
                    continue;
                }
                let p = if path == "/" { format!("/{name}") } else { format!("{path}/{name}") };
                let Some(g) = gt.iter().find(|g| g.path == p) else {
                    return Err(("C08/read/unexpected-entry".into(), format!("library lists {p:?} which the generator did not create")));
                };
                seen.insert(p.clone(), ());
                if e.short_file_name() != g.short {
                    return Err(("C08/read/short-name".into(), format!("{p}: short name {:?}, generator wrote {:?}", e.short_file_name(), g.short)));
                }
                if e.long_file_name_as_ucs2_units().map(<[u16]>::to_vec) != g.units {
                    return Err(("C08/read/long-name-units".into(), format!("{p}: units differ")));
                }
                if e.attributes().bits() != g.attr & 0x3F || e.is_dir() != g.is_dir {
                    return Err(("C08/read/attributes".into(), format!("{p}: attributes {:#x}, generator wrote {:#x}", e.attributes().bits(), g.attr)));
                }
                if !g.is_dir && e.len() != g.size as u64 {
                    return Err(("C08/read/size".into(), format!("{p}: len {}, generator wrote {}", e.len(), g.size)));
                }
                let (c, m, a) = (e.created(), e.modified(), e.accessed());
                let got = ((c.date.year, c.date.month, c.date.day), (c.time.hour, c.time.min, c.time.sec, c.time.millis), (m.date.year, m.date.month, m.date.day), (m.time.hour, m.time.min, m.time.sec, m.time.millis), (a.year, a.month, a.day));
                let want = (dec_date(g.t.cdate), dec_time(g.t.ctime, g.t.ctime_tenth), dec_date(g.t.mdate), dec_time(g.t.mtime, 0), dec_date(g.t.adate));
                if got != want {
                    return Err(("C08/read/timestamps".into(), format!("{p}: {got:?} vs generator {want:?}")));
                }
                if g.is_dir {
                    walk(&e.to_dir(), &p, gt, seen)?;
                } else {
                    let mut f = e.to_file();
                    let data = sess::read_all(&mut f, 1 << 26).map_err(|k| ("C08/read/read-error".to_string(), format!("{p}: {k:?}")))?;
                    if data != g.content {
                        let at = data.iter().zip(&g.content).position(|(a, b)| a != b);
                        return Err(("C08/read/content".into(), format!("{p}: {} bytes read, {} written by the generator, first difference at {at:?}", data.len(), g.content.len())));
                    }
                }
            }
            Ok(())
        }
        walk(&fs.root_dir(), "/", gt, &mut seen)?;
        for g in gt {
            if !seen.contains_key(&g.path) {
                return Err(("C08/read/entry-not-listed".into(), format!("{:?} created by the generator is not listed", g.path)));
            }
        }
        let lab = fs.read_volume_label_from_root_dir_as_bytes().map_err(|e| ("C08/read/label-error".to_string(), format!("{:?}", sess::ek(e))))?;
        if lab != Some(*b"VOL LABEL  ") {
            return Err(("C08/read/label".into(), format!("label in the middle of the root not found: {lab:?}")));
        }
        let labs = fs.read_volume_label_from_root_dir().map_err(|e| ("C08/read/label-error".to_string(), format!("{:?}", sess::ek(e))))?;
        if labs.as_deref() != Some("VOL LABEL") {
            return Err(("C08/read/label-string".into(), format!("label as a string: {labs:?}")));
        }
        drop(fs);
        Ok(())
    });
    let mut v = Vec::new();
    match r {
        Err(p) => v.push((format!("C08/read/panic/{}", panic_class(&p)), p)),
        Ok(Err(x)) => v.push(x),
        Ok(Ok(())) => {}
    }
    // a pure read session must not change the image (clean volumes)
    if !st.borrow().canonical_overlay().is_empty() {
        v.push(("C08/read/image-changed-by-reading".into(), format!("{} pages differ after a read-only session", st.borrow().canonical_overlay().len())));
    }
    v
}

/// A FAT12/16 volume whose fixed root is NOT a whole number of sectors (legal: the count is any 16-bit value) and is
/// completely full (no end marker inside it); the slack of the last root sector holds stale, directory-like bytes.
/// Returns (name, image, ground truth, free clusters, byte range of the slack).
pub fn build_odd_root(width: u8, bps: u32) -> (String, Vec<u8>, Vec<Gt>, Vec<u32>, (u64, u64)) {
    let mut ms = MkSpec::new(width);
    ms.bps = bps;
    ms.spc = 1;
    let per = bps / 32;
    ms.root_entries = per + per / 2;
    if width == 12 {
        ms.clusters = 120;
    }
    ms.reserved = 2;
    let n = ms.root_entries as usize;
    let mut b = Builder::new(ms);
    let cs = b.geo.cluster_size() as usize;
    let mut gt: Vec<Gt> = Vec::new();
    let mut root: Vec<[u8; 32]> = Vec::new();
    root.push(builder::sfn_slot(b"VOL LABEL  ", 0x08, 0, normal_times(9), 0, 0));
    let c_a = pattern(5, cs + 3);
    let c_b = pattern(6, 7);
    for i in 1..n {
        let sfn: [u8; 11] = format!("F{:03}    DAT", i).as_bytes().try_into().unwrap();
        let (fc, size, content) = match i {
            1 => (2u32, c_a.len() as u32, c_a.clone()),
            x if x == n - 1 => (4u32, c_b.len() as u32, c_b.clone()),
            _ => (0, 0, vec![]),
        };
        let t = normal_times(i as u16 % 60);
        root.push(builder::sfn_slot(&sfn, 0x20, 0, t, fc, size));
        gt.push(Gt { path: format!("/F{:03}.DAT", i), is_dir: false, attr: 0x20, size, content, short: format!("F{:03}.DAT", i), units: None, t });
    }
    b.write_file(&[2, 3], &c_a);
    b.write_file(&[4], &c_b);
    b.write_dir(&[], &root);
    let keep: Vec<u32> = (5..9).collect();
    b.ballast(&keep);
    let g = b.geo.clone();
    let mut img = b.finish();
    let slack = (g.root_off() + g.root_bytes(), g.data_off());
    let mut k = 0u8;
    let mut off = slack.0;
    while off + 32 <= slack.1 {
        let sfn: [u8; 11] = format!("GHOST{:03}TMP", k).as_bytes().try_into().unwrap();
        let s = builder::sfn_slot(&sfn, 0x20, 0, normal_times(1), 0, 0);
        img[off as usize..off as usize + 32].copy_from_slice(&s);
        off += 32;
        k = k.wrapping_add(1);
    }
    (format!("fat{width}-{bps}x1-odd-full-root-{n}"), img, gt, keep, slack)
}

/// the full odd-sized root: nothing of the slack is an entry, a creation has no slot to go to, the slack stays as it was
fn full_root_phase(cfg: &Cfg, slack: (u64, u64)) -> Vec<(String, String)> {
    let (st, _d) = new_dev(&cfg.base);
    let before = st.borrow().read_vec(slack.0, (slack.1 - slack.0) as usize);
    let ctr = Rc::new(Cell::new(0u32));
    let r = sess::guarded(|| -> Result<(), (String, String)> {
        let fs = sess::mount(MemDev::new(st.clone()), cfg, &ctr).map_err(|e| ("C08/full-root/mount-failed".to_string(), format!("{:?}", sess::ek(e))))?;
        let root = fs.root_dir();
        for ghost in ["GHOST000.TMP", "GHOST003.TMP"] {
            if root.open_file(ghost).is_ok() {
                return Err(("C08/full-root/slack-bytes-opened-as-a-file".into(), format!("{ghost}: stale bytes behind the last root entry (same sector) are found as a file")));
            }
        }
        if root.create_file("NEWFILE.TXT").is_ok() {
            return Err(("C08/full-root/creation-in-a-full-root-succeeds".into(), "every slot of the fixed root is in use, yet create_file succeeded".into()));
        }
        drop(root);
        fs.unmount().map_err(|e| ("C08/full-root/unmount-failed".to_string(), format!("{:?}", sess::ek(e))))?;
        Ok(())
    });
    let mut v = Vec::new();
    match r {
        Err(p) => v.push((format!("C08/full-root/panic/{}", panic_class(&p)), p)),
        Ok(Err(x)) => v.push(x),
        Ok(Ok(())) => {}
    }
    let after = st.borrow().read_vec(slack.0, (slack.1 - slack.0) as usize);
    if before != after {
        v.push(("C08/full-root/slack-behind-the-root-written".into(), "bytes between the last root entry and the first data sector changed".into()));
    }
    v
}

/// statistics of the foreign volume vs the number of clusters the builder left free (a session of its own: when the
/// count is unknown or the volume dirty the library may store the count it computed)
fn stats_phase(cfg: &Cfg, free: u32, clusters: u64, cs: usize) -> Vec<(String, String)> {
    let (st, _d) = new_dev(&cfg.base);
    let ctr = Rc::new(Cell::new(0u32));
    let r = sess::guarded(|| -> Result<(u32, u32, u32), String> {
        let fs = sess::mount(MemDev::new(st.clone()), cfg, &ctr).map_err(|e| format!("mount: {:?}", sess::ek(e)))?;
        let s = fs.stats().map_err(|e| format!("stats: {:?}", sess::ek(e)))?;
        let out = (s.free_clusters(), s.total_clusters(), s.cluster_size());
        fs.unmount().map_err(|e| format!("unmount: {:?}", sess::ek(e)))?;
        Ok(out)
    });
    match r {
        Err(p) => vec![(format!("C08/stats/panic/{}", panic_class(&p)), p)],
        Ok(Err(e)) => vec![("C08/stats/failed".into(), e)],
        Ok(Ok((f, t, c))) => {
            if f != free || t as u64 != clusters || c as usize != cs {
                vec![("C08/stats/differ-from-the-generated-volume".into(), format!("library: {f} free of {t} clusters of {c} bytes; generator: {free} free of {clusters} clusters of {cs} bytes"))]
            } else {
                vec![]
            }
        }
    }
}

#[derive(Clone, Debug)]
pub struct Mutation {
    pub name: &'static str,
    /// entries (paths in the original image) whose slots, chain and data may change
    pub targets: Vec<&'static str>,
    /// directories whose free slots may be used
    pub dirs: Vec<&'static str>,
}

pub fn mutations() -> Vec<Mutation> {
    mutations_all()
}

fn mutations_all() -> Vec<Mutation> {
    let v = vec![
        Mutation { name: "create-file-in-root", targets: vec![], dirs: vec!["/"] },
        Mutation { name: "create-file-in-subdir", targets: vec![], dirs: vec!["/Nested Dir/level2"] },
        Mutation { name: "append-cluster-to-fragmented-file", targets: vec!["/three.bin"], dirs: vec![] },
        Mutation { name: "overwrite-in-place", targets: vec!["/ONEPLUS.BIN"], dirs: vec![] },
        Mutation { name: "truncate-at-cluster-size", targets: vec!["/three.bin"], dirs: vec![] },
        Mutation { name: "remove-file", targets: vec!["/ONE.BIN"], dirs: vec![] },
        Mutation { name: "remove-empty-dir", targets: vec!["/EMPTYDIR"], dirs: vec![] },
        Mutation { name: "rename-within-dir", targets: vec!["/lower.txt"], dirs: vec!["/"] },
        Mutation { name: "move-across-dirs", targets: vec!["/UPPER.txt"], dirs: vec!["/Nested Dir"] },
        Mutation { name: "set-timestamps", targets: vec!["/PLAIN.TXT"], dirs: vec![] },
        Mutation { name: "create-dir-in-subdir", targets: vec![], dirs: vec!["/Nested Dir"] },
        Mutation { name: "write-into-empty-file", targets: vec!["/EMPTY.BIN"], dirs: vec![] },
        // write until the (foreign, zero-padded) volume is full: must stop with NotEnoughSpace with every cluster used
        Mutation { name: "fill-volume", targets: vec![], dirs: vec!["/"] },
    ];
    let mut v = v;
    {
        v.push(Mutation { name: "remove-entry-after-label", targets: vec!["/RDONLY.A"], dirs: vec![] });
        v.push(Mutation { name: "create-four-slot-name-in-root", targets: vec![], dirs: vec!["/"] });
        v.push(Mutation { name: "grow-subdir", targets: vec!["/Nested Dir/level2/LEVEL3"], dirs: vec!["/Nested Dir/level2/LEVEL3"] });
    }
    v
}

fn apply(fs: &sess::Fs, m: &Mutation, cs: usize) -> Result<(), String> {
    let root = fs.root_dir();
    let e = |x: fatfs::Error<harness::dev::DevErr>| format!("{:?}", sess::ek(x));
    match m.name {
        "create-file-in-root" => {
            let mut f = root.create_file("New File In Root.txt").map_err(e)?;
            f.write_all(b"hello").map_err(e)?;
        }
        "create-file-in-subdir" => {
            let mut f = root.create_file("Nested Dir/level2/new.dat").map_err(e)?;
            f.write_all(&pattern(5, cs + 3)).map_err(e)?;
        }
        "append-cluster-to-fragmented-file" => {
            let mut f = root.open_file("three.bin").map_err(e)?;
            f.seek(SeekFrom::End(0)).map_err(e)?;
            f.write_all(&pattern(6, cs)).map_err(e)?;
        }
        "overwrite-in-place" => {
            let mut f = root.open_file("oneplus.bin").map_err(e)?;
            f.seek(SeekFrom::Start(5)).map_err(e)?;
            f.write_all(b"0123456789").map_err(e)?;
        }
        "truncate-at-cluster-size" => {
            let mut f = root.open_file("THREE.BIN").map_err(e)?;
            f.seek(SeekFrom::Start(cs as u64)).map_err(e)?;
            f.truncate().map_err(e)?;
        }
        "write-into-empty-file" => {
            let mut f = root.open_file("empty.bin").map_err(e)?;
            f.write_all(b"first bytes").map_err(e)?;
        }
        "create-dir-in-subdir" => {
            root.create_dir("Nested Dir/New Dir").map_err(e)?;
        }
        "remove-entry-after-label" => root.remove("rdonly.a").map_err(e)?,
        "create-four-slot-name-in-root" => {
            root.create_file("a name that needs three long-name slots.txt").map_err(e)?;
        }
        "remove-entry-after-orphan-run" => root.remove("afterorp.bin").map_err(e)?,
        "grow-subdir" => {
            let d = root.open_dir("Nested Dir/level2/LEVEL3").map_err(e)?;
            let n = (cs / 32) / 17 + 1;
            for i in 0..n {
                let name = format!("{:03}{}", i, "x".repeat(197));
                d.create_file(&name).map_err(e)?;
            }
        }
        "remove-file" => root.remove("one.bin").map_err(e)?,
        "remove-empty-dir" => root.remove("emptydir").map_err(e)?,
        "rename-within-dir" => root.rename("LOWER.TXT", &root, "Renamed Lower.txt").map_err(e)?,
        "move-across-dirs" => root.rename("upper.txt", &root, "Nested Dir/moved.txt").map_err(e)?,
        "set-timestamps" => {
            let mut f = root.open_file("plain.txt").map_err(e)?;
            let dt = fatfs::DateTime::new(fatfs::Date::new(2020, 2, 29), fatfs::Time::new(12, 34, 56, 780));
            f.set_modified(dt);
            f.set_created(dt);
            f.flush().map_err(e)?;
        }
        "fill-volume" => {
            let mut f = root.create_file("FILL.BIN").map_err(e)?;
            let chunk = pattern(9, cs);
            let mut n = 0u32;
            loop {
                match f.write_all(&chunk) {
                    Ok(()) => n += 1,
                    Err(fatfs::Error::NotEnoughSpace) => break,
                    Err(x) => return Err(format!("write {n}: {:?}", sess::ek(x))),
                }
                if n > 64 {
                    return Err(format!("{n} clusters written to a volume with at most 9 free clusters"));
                }
            }
            f.flush().map_err(e)?;
            let free = fs.stats().map_err(e)?.free_clusters();
            if free != 0 {
                return Err(format!("NotEnoughSpace after {n} clusters but {free} clusters are reported free"));
            }
        }
        _ => unreachable!(),
    }
    Ok(())
}

/// byte-level diff of the image confined to what the mutation may change
fn diff_confined(pre_dev: &DevState, post_dev: &DevState, pre: &Decoded, post: &Decoded, m: &Mutation) -> Vec<(String, String)> {
    let mut v = Vec::new();
    let g = &pre.geo;
    let bps = g.bps as u64;
    // pages that differ
    let changed: Vec<(u64, [u8; 512])> = post_dev.canonical_overlay();
    // clusters that may change: chains of targets (pre), clusters free before
    let mut ok_clusters: BTreeSet<u32> = BTreeSet::new();
    let mut target_slots: BTreeSet<u64> = BTreeSet::new(); // absolute offsets of slots of target entries
    let mut parent_sfn_slots: BTreeSet<u64> = BTreeSet::new(); // SFN slots of directories on the path (timestamps may change)
    let mut dir_free_slots: BTreeSet<u64> = BTreeSet::new();
    let fat = decoder::FatView::new(pre_dev, g, g.active_fat());
    let find_ci = |path: &str| -> Option<(&decoder::DDir, &decoder::DEntry)> {
        for d in &pre.dirs {
            for e in &d.entries {
                if e.is_dot() {
                    continue;
                }
                let p = if d.path == "/" { format!("/{}", e.name) } else { format!("{}/{}", d.path, e.name) };
                if p.eq_ignore_ascii_case(path) {
                    return Some((d, e));
                }
            }
        }
        None
    };
    let mut touched_dirs: Vec<String> = m.dirs.iter().map(|s| s.to_string()).collect();
    for t in &m.targets {
        if let Some((d, e)) = find_ci(t) {
            // (slots of a broken run in front of the entry count as the entry's own: removing them with it is admitted)
            let strict_orphans = false;
            let first = if strict_orphans && format!("{:?}", e.lfn).starts_with("Broken") { e.slot_sfn } else { e.slot_first };
            for s in first..=e.slot_sfn {
                target_slots.insert(d.slot_abs[s]);
            }
            ok_clusters.extend(e.chain.iter().copied());
            if let Some(ci) = e.child {
                ok_clusters.extend(pre.dirs[ci].chain.iter().copied());
            }
            touched_dirs.push(d.path.clone());
        } else {
            v.push(("C08/machinery/target-missing".into(), format!("{t} not in the decoded pre-image")));
        }
    }
    for dp in &touched_dirs {
        // free slots (deleted, or at/after the end marker) of the directory; its own chain may grow into free clusters
        if let Some(d) = pre.dirs.iter().find(|d| d.path.eq_ignore_ascii_case(dp)) {
            let end = d.end_idx.unwrap_or(d.slots.len());
            for (i, s) in d.slots.iter().enumerate() {
                if i >= end || s[0] == 0xE5 {
                    dir_free_slots.insert(d.slot_abs[i]);
                }
            }
            // orphan long-name slots are not free: they must survive
            // the SFN slot of every directory on the path to the touched directory may get new timestamps
            let mut path = String::new();
            for comp in dp.split('/').filter(|c| !c.is_empty()) {
                path = format!("{path}/{comp}");
                if let Some((pd, pe)) = find_ci(&path) {
                    parent_sfn_slots.insert(pd.slot_abs[pe.slot_sfn]);
                }
            }
        }
    }
    let is_free_before = |c: u32| fat.get(c) == 0;
    let mirrored = g.mirrored();
    let act = g.active_fat();
    let mut buf_pre = [0u8; 512];
    for (pno, page) in &changed {
        pre_dev.read_at(pno * 512, &mut buf_pre);
        for i in 0..512usize {
            if page[i] == buf_pre[i] {
                continue;
            }
            let off = pno * 512 + i as u64;
            let reg = g.region(off);
            let bad: Option<String> = match &reg {
                Region::BootStatus | Region::FsInfo => None,
                Region::Fat(copy) => {
                    if !mirrored && *copy != act {
                        Some(format!("inactive FAT copy {copy}"))
                    } else {
                        // which entry?
                        let rel = off - g.fat_off(*copy);
                        let cands: Vec<u32> = match g.width {
                            12 => vec![(rel * 2 / 3) as u32, (rel * 2 / 3) as u32 + 1, ((rel * 2).saturating_sub(1) / 3) as u32],
                            16 => vec![(rel / 2) as u32],
                            _ => vec![(rel / 4) as u32],
                        };
                        if g.width == 32 && rel % 4 == 3 && (page[i] & 0xF0) != (buf_pre[i] & 0xF0) {
                            Some(format!("reserved top nibble of FAT32 entry {}", rel / 4))
                        } else if cands.iter().any(|c| *c >= 2 && (ok_clusters.contains(c) || is_free_before(*c))) {
                            None
                        } else {
                            Some(format!("FAT entry {:?} of a cluster that is neither the target's nor free", cands))
                        }
                    }
                }
                Region::Root | Region::Cluster(_) => {
                    let slot_abs = off - off % 32;
                    let in_dir = pre.dirs.iter().any(|d| d.slot_abs.binary_search(&slot_abs).is_ok() || d.slot_abs.contains(&slot_abs));
                    if in_dir {
                        if target_slots.contains(&slot_abs) || dir_free_slots.contains(&slot_abs) {
                            None
                        } else if parent_sfn_slots.contains(&slot_abs) && matches!(off % 32, 18 | 19 | 22..=25) {
                            None
                        } else {
                            Some("directory slot of another entry".to_string())
                        }
                    } else if let Region::Cluster(c) = reg {
                        if ok_clusters.contains(&c) || is_free_before(c) {
                            None
                        } else {
                            Some(format!("data cluster {c} owned by {:?}", pre.owner.get(&c)))
                        }
                    } else {
                        Some("fixed root area outside any slot".to_string())
                    }
                }
                other => Some(format!("{other:?}")),
            };
            if let Some(b) = bad {
                let class: String = b.chars().filter(|c| !c.is_ascii_digit()).map(|c| if c.is_ascii_alphanumeric() { c } else { '-' }).take(50).collect();
                v.push((format!("C08/write/{}/changed-{class}", m.name), format!("byte at offset {off} ({:?}) changed {:#04x} -> {:#04x}: {b}", g.region(off), buf_pre[i], page[i])));
                return v;
            }
        }
        let _ = bps;
    }
    // mirrored volumes: every FAT copy equals the first one after the mutation
    if g.mirrored() && g.nfats > 1 {
        let c0 = post_dev.read_vec(g.fat_off(0), g.fat_bytes() as usize);
        for c in 1..g.nfats {
            if post_dev.read_vec(g.fat_off(c), g.fat_bytes() as usize) != c0 {
                v.push((format!("C08/write/{}/fat-copies-differ", m.name), format!("FAT copy {c} differs from copy 0 after the mutation")));
                break;
            }
        }
    }
    // no new structural findings
    let pre_f: BTreeSet<(&String, &String)> = pre.findings.iter().map(|f| (&f.sig, &f.msg)).collect();
    for f in &post.findings {
        if !pre_f.contains(&(&f.sig, &f.msg)) {
            v.push((format!("C08/write/{}/new-finding/{}", m.name, f.sig), f.msg.clone()));
        }
    }
    v
}

fn write_phase(cfg: &Cfg, gt: &[Gt], m: &Mutation, cs: usize) -> Vec<(String, String)> {
    let (st, _d) = new_dev(&cfg.base);
    let ctr = Rc::new(Cell::new(0u32));
    let pre_dev = DevState::new(cfg.base.clone());
    let opts = || DecodeOpts::default();
    let pre = match sess::decode_dev(&pre_dev, cfg, &[]) {
        Ok(d) => d,
        Err(e) => return vec![("C08/machinery/pre-image-undecodable".into(), e)],
    };
    let _ = opts;
    let r = sess::guarded(|| -> Result<(), String> {
        let fs = sess::mount(MemDev::new(st.clone()), cfg, &ctr).map_err(|e| format!("mount: {:?}", sess::ek(e)))?;
        apply(&fs, m, cs)?;
        fs.unmount().map_err(|e| format!("unmount: {:?}", sess::ek(e)))
    });
    match r {
        Err(p) => return vec![(format!("C08/write/{}/panic/{}", m.name, panic_class(&p)), p)],
        Ok(Err(e)) => return vec![(format!("C08/write/{}/failed", m.name), e)],
        Ok(Ok(())) => {}
    }
    let post_dev = st.borrow();
    let post = match sess::decode_dev(&post_dev, cfg, &[]) {
        Ok(d) => d,
        Err(e) => return vec![(format!("C08/write/{}/undecodable", m.name), e)],
    };
    let mut v = diff_confined(&pre_dev, &post_dev, &pre, &post, m);
    // the target's own entry: a data / size / timestamp change must not touch its name bytes, case flags,
    // attributes (and, unless timestamps were set, its creation stamp)
    let ea = pre.geo.width != 32;
    if matches!(m.name, "append-cluster-to-fragmented-file" | "overwrite-in-place" | "truncate-at-cluster-size" | "set-timestamps" | "write-into-empty-file") {
        for t in &m.targets {
            let find = |d: &Decoded| -> Option<[u8; 32]> {
                for dir in &d.dirs {
                    for e in &dir.entries {
                        let p = if dir.path == "/" { format!("/{}", e.name) } else { format!("{}/{}", dir.path, e.name) };
                        if p.eq_ignore_ascii_case(t) {
                            return Some(dir.slots[e.slot_sfn]);
                        }
                    }
                }
                None
            };
            match (find(&pre), find(&post)) {
                (Some(a), Some(b)) => {
                    let may_change = |i: usize| -> bool {
                        if ea && matches!(i, 20..=21) {
                            return false;
                        }
                        matches!(i, 18..=19 | 20..=21 | 22..=25 | 26..=27 | 28..=31) || (m.name == "set-timestamps" && matches!(i, 13..=17))
                    };
                    for i in 0..32 {
                        if a[i] != b[i] && !may_change(i) {
                            let field = match i {
                                0..=10 => "short-name",
                                11 => "attributes",
                                12 => "case-flags",
                                20..=21 => "fat12-16-bytes-20-21",
                                _ => "creation-stamp",
                            };
                            v.push((format!("C08/write/{}/target-entry-{field}-changed", m.name), format!("{t}: byte {i} of its directory entry changed {:#04x} -> {:#04x}", a[i], b[i])));
                            break;
                        }
                    }
                }
                (Some(_), None) => v.push((format!("C08/write/{}/target-entry-lost", m.name), format!("{t} is no longer listed under its name"))),
                _ => {}
            }
        }
    }
    // every file the mutation was not asked to change keeps its content
    let targets: Vec<String> = m.targets.iter().map(|t| t.to_ascii_lowercase()).collect();
    let flat = post.flat();
    for g in gt {
        if g.is_dir || targets.contains(&g.path.to_ascii_lowercase()) {
            continue;
        }
        match flat.get(&g.path) {
            Some(n) => {
                if n.content.as_deref() != Some(&g.content[..]) || n.size != g.size {
                    v.push((format!("C08/write/{}/other-file-changed", m.name), format!("{} changed", g.path)));
                }
            }
            None => v.push((format!("C08/write/{}/other-file-lost", m.name), format!("{} no longer decodes", g.path))),
        }
    }
    v
}

pub fn run(tier: &str) -> i32 {
    let th = is_thorough(tier);
    let t0 = Instant::now();
    let deadline = t0 + wall_budget(tier);
    let specs = grid(th);
    let evals = AtomicU64::new(0);
    let capped = AtomicU64::new(0);
    let muts = mutations();
    // FAT32 images are 33 MiB each: limit the number built at once through the rayon chunking
    let res: Vec<Vec<(String, String, String)>> = specs
        .par_iter()
        .map(|sp| {
            if Instant::now() > deadline {
                capped.fetch_add(1, Ordering::Relaxed);
                return vec![];
            }
            let mut out = Vec::new();
            let name = sp.name();
            let built = sess::guarded(|| build(sp));
            let (img, gt, keep) = match built {
                Ok(x) => x,
                Err(p) => return vec![("C08/machinery/builder-panic".to_string(), p, name)],
            };
            let mut cfg = Cfg::new(&name, Arc::new(Base::Bytes(img)));
            let g = decoder::parse_raw(&{
                let st = DevState::new(cfg.base.clone());
                st.read_vec(0, 512)
            })
            .unwrap();
            let cs = g.cluster_size() as usize;
            if g.clusters > 20_000 {
                // sparse allocation scan: everything that is not bad in the builder's image
                let mut cands: Vec<u32> = keep.clone();
                cands.extend(2..80);
                cands.push(g.max_cluster() - 1);
                cands.push(g.max_cluster());
                cfg.candidates = Some(Arc::new(cands));
            }
            // the builder's own output must decode to its ground truth (anchors decoder and builder to each other)
            {
                let st = DevState::new(cfg.base.clone());
                match sess::decode_dev(&st, &cfg, &[]) {
                    Ok(d) => {
                        let flat = d.flat();
                        for x in &gt {
                            match flat.get(&x.path) {
                                Some(n) if n.is_dir == x.is_dir && (x.is_dir || (n.size == x.size && n.content.as_deref() == Some(&x.content[..]))) => {}
                                other => out.push(("C08/machinery/decoder-disagrees-with-builder".to_string(), format!("{}: {:?}", x.path, other.map(|n| (n.is_dir, n.size))), name.clone())),
                            }
                        }
                        let unexpected: Vec<&String> = d.findings.iter().map(|f| &f.sig).filter(|s| *s != "I5/orphan-lfn").collect();
                        if !unexpected.is_empty() {
                            out.push(("C08/machinery/builder-image-has-findings".to_string(), format!("{unexpected:?} {:?}", d.findings.first()), name.clone()));
                        }
                    }
                    Err(e) => out.push(("C08/machinery/builder-image-undecodable".to_string(), e, name.clone())),
                }
            }
            evals.fetch_add(1, Ordering::Relaxed);
            for (sig, msg) in read_phase(&cfg, &gt) {
                out.push((sig, msg, name.clone()));
            }
            evals.fetch_add(1, Ordering::Relaxed);
            for (sig, msg) in stats_phase(&cfg, keep.len() as u32, g.clusters, cs) {
                out.push((sig, msg, name.clone()));
            }
            for m in &muts {
                evals.fetch_add(1, Ordering::Relaxed);
                for (sig, msg) in write_phase(&cfg, &gt, m, cs) {
                    out.push((sig, msg, name.clone()));
                }
            }
            out
        })
        .collect();
    // volumes whose fixed root is not a whole number of sectors and completely full (stale entries in the slack)
    let mut odd: Vec<(String, String, String)> = Vec::new();
    let mut odd_names: Vec<String> = Vec::new();
    for (width, bps) in [(12u8, 512u32), (16, 512), (12, 4096), (16, 1024)] {
        match sess::guarded(|| build_odd_root(width, bps)) {
            Err(p) => odd.push(("C08/machinery/builder-panic".to_string(), p, format!("odd-root-{width}-{bps}"))),
            Ok((name, img, gt, keep, slack)) => {
                let cfg = Cfg::new(&name, Arc::new(Base::Bytes(img)));
                let g = decoder::parse_raw(&DevState::new(cfg.base.clone()).read_vec(0, 512)).unwrap();
                match sess::decode_dev(&DevState::new(cfg.base.clone()), &cfg, &[]) {
                    Ok(d) => {
                        let flat = d.flat();
                        for x in &gt {
                            match flat.get(&x.path) {
                                Some(n) if !n.is_dir && n.size == x.size && n.content.as_deref() == Some(&x.content[..]) => {}
                                other => odd.push(("C08/machinery/decoder-disagrees-with-builder".to_string(), format!("{}: {:?}", x.path, other.map(|n| (n.is_dir, n.size))), name.clone())),
                            }
                        }
                        if flat.len() != gt.len() || !d.findings.is_empty() {
                            odd.push(("C08/machinery/builder-image-has-findings".to_string(), format!("{} nodes decoded, {} generated, {:?}", flat.len(), gt.len(), d.findings.first()), name.clone()));
                        }
                    }
                    Err(e) => odd.push(("C08/machinery/builder-image-undecodable".to_string(), e, name.clone())),
                }
                evals.fetch_add(3, Ordering::Relaxed);
                for (sig, msg) in read_phase(&cfg, &gt).into_iter().chain(stats_phase(&cfg, keep.len() as u32, g.clusters, g.cluster_size() as usize)).chain(full_root_phase(&cfg, slack)) {
                    odd.push((sig, msg, name.clone()));
                }
                odd_names.push(name);
            }
        }
    }
    let mut all: BTreeMap<String, (String, u64, String)> = BTreeMap::new();
    for (sig, msg, cfg) in res.into_iter().flatten().chain(odd) {
        all.entry(sig).or_insert((msg, 0, cfg)).1 += 1;
    }
    let mut rep = Report::new("C08", tier, "model_checking");
    for (sig, (msg, n, cfg)) in all {
        let mut v = violation("C08", &sig, &msg, &cfg);
        v.count = n;
        rep.add(v, json!({"check": "C08", "volume": cfg, "case": msg}));
    }
    let ncap = capped.load(Ordering::Relaxed);
    rep.coverage = json!({
        "states": specs.len() as u64 - ncap + odd_names.len() as u64,
        "odd_root_volumes": odd_names,
        "transitions": evals.load(Ordering::Relaxed),
        "traces_validated_against_impl": evals.load(Ordering::Relaxed),
        "samples": specs.iter().take(3).map(Spec::name).collect::<Vec<_>>(),
        "exhaustive": ncap == 0,
        "volumes": specs.len(),
        "volumes_skipped_by_deadline": ncap,
        "mutations_per_volume": muts.iter().map(|m| m.name).collect::<Vec<_>>(),
        "explanation": "states = foreign volumes in the (tier's) product grid, each an initial state built by the independent builder with its ground truth; transitions = 1 read session + 10 single mutations from every initial state (depth-1 exploration), all executed on the real crate; read: names, short names, UCS-2 units, attributes, raw timestamps, sizes, contents and label vs the builder's ground truth; write: byte-level diff against the pre-image confined to the target's slots / free slots / its FAT entries and clusters / clusters free before / status byte / fs-info, no new structural finding, every other file intact",
        "grid": "width {12,16,32} x (sector,cluster) {512x1, 512x8, 4096x1, 4096x8 (FAT12); 512x1, 512x8, 4096x1 (FAT16); 512x1 (FAT32)} x FAT copies {1,2,3} x (FAT32: mirrored / mirrored with a stale active-copy number / each active copy, inactive copies scribbled) x FAT32 top nibble {0,0xA} x end-of-chain {lowest,highest} x chain layout {contiguous,reversed,interleaved,through-last-cluster} x FAT32 free count {stored, unknown} x status {clean,dirty}; FAT32 volumes have 66 600 clusters (cluster numbers above 0xFFFF in the through-last-cluster layout), with 3 FAT copies the information / backup sectors sit at 2 / 9, the live label carries attribute 0x28 in the odd layouts; statistics compared with the generator; 13 mutations incl. a new directory, a first write into an empty file and writing until the volume is full; free clusters hold directory-like junk, dirty volumes carry a stale free count, half the FAT32 volumes a next-free hint on the last cluster; quick tier = a quarter of the grid; in addition four FAT12/16 volumes whose fixed root is one and a half sectors long and completely full, with stale directory-like bytes in the slack of its last sector (read session, statistics, lookups of the stale names, a creation that has no slot to go to, slack unchanged)",
        "technique": "exhaustive product grid of builder-made foreign volumes as initial states, depth-1 exploration on the real crate, independent decoder + byte-level diff oracle",
    });
    rep.assumptions = vec!["cluster sizes / copy counts outside the grid are not covered; FAT32 with large clusters is left out because the builder keeps flat images in memory".into()];
    rep.wall_s = t0.elapsed().as_secs_f64();
    rep.finish()
}
