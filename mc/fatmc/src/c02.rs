//! C02 — a file is a growable byte array with a cursor, at every offset and buffer size.

use fatfs::FatType;
use harness::dev::Short;
use harness::explore::Checker;
use harness::oracles as o;
use harness::sess::{Cfg, DirRef, Exec, Op, SeekSpec};
use harness::vol;

use crate::common::{is_thorough, ExpSpec};

pub struct C02;

impl Checker for C02 {
    fn check(&self, _cfg: &Cfg, ops: &[Op], ex: &Exec) -> Vec<(String, String)> {
        let mut v = o::o_result("C02", ops, ex);
        if !v.is_empty() {
            return v;
        }
        v.extend(o::o_cursor("C02", ops, ex));
        v.extend(o::o_tree_suffix("C02", ex, false));
        v.extend(o::o_extents("C02", ex));
        // allocation invariants (a file's clusters are marked used, chains do not cross, no cluster is lost)
        v.extend(o::o_invariants("C02", ops, ex).into_iter().filter(|(s, _)| s.contains("/I1/") || s.contains("/I2/")));
        v
    }
}

pub fn prefix() -> Vec<Op> {
    vec![
        Op::CreateFile { base: DirRef::Root, path: "f".into(), keep: Some(0) },
        Op::CreateFile { base: DirRef::Root, path: "g".into(), keep: Some(1) },
    ]
}

/// full alphabet for handle `h` on file `name`
pub fn handle_ops(h: u8, name: &str, cs: u32, full: bool) -> Vec<Op> {
    let cs64 = cs as u64;
    let csi = cs as i64;
    let mut a = Vec::new();
    let wl: Vec<u32> = if full { vec![0, 1, cs - 1, cs, cs + 1, 2 * cs + 1] } else { vec![1, cs, cs + 1] };
    for len in wl {
        a.push(Op::Write { h, len });
    }
    for len in if full { vec![cs + 1, 3 * cs] } else { vec![2 * cs + 1] } {
        a.push(Op::WriteAll { h, len });
    }
    for len in if full { vec![0, 1, cs - 1, cs, cs + 1, 3 * cs] } else { vec![1, cs + 1] } {
        a.push(Op::Read { h, len });
    }
    a.push(Op::ReadExact { h, len: 2 * cs });
    let so: Vec<u64> = if full {
        vec![0, 1, cs64 - 1, cs64, cs64 + 1, 2 * cs64 - 1, 2 * cs64, 2 * cs64 + 1, 3 * cs64]
    } else {
        vec![0, cs64 - 1, cs64, 2 * cs64 + 1]
    };
    for o in so {
        a.push(Op::Seek { h, pos: SeekSpec::Start(o) });
    }
    if full {
        for d in [1, -1, csi, -csi, 1 << 31, -(1 << 31), 1 << 32, -(1 << 32), (1 << 32) + 1, i64::MIN, i64::MAX] {
            a.push(Op::Seek { h, pos: SeekSpec::Current(d) });
        }
        for d in [0, -1, -csi, 1, -(1 << 40)] {
            a.push(Op::Seek { h, pos: SeekSpec::End(d) });
        }
        a.push(Op::Seek { h, pos: SeekSpec::Start(1 << 32) });
        a.push(Op::Seek { h, pos: SeekSpec::Start(u32::MAX as u64) });
        a.push(Op::Extents { h });
    } else {
        a.push(Op::Seek { h, pos: SeekSpec::End(-1) });
        a.push(Op::Seek { h, pos: SeekSpec::Current(-1) });
    }
    a.push(Op::Truncate { h });
    a.push(Op::Flush { h });
    a.push(Op::DropFile { h });
    a.push(Op::OpenFile { base: DirRef::Root, path: name.into(), keep: Some(h) });
    if full {
        a.push(Op::Remount);
    }
    a
}

pub fn alphabet(cs: u32, two: bool) -> Vec<Op> {
    let mut a = handle_ops(0, "f", cs, true);
    if two {
        a.extend(handle_ops(1, "g", cs, false));
    }
    a
}

fn geometry_cfg(ft: FatType, bps: u16, spc: u32, nfree: usize) -> Cfg {
    let spec = vol::VolSpec {
        name: format!("g{}-{}x{}", match ft { FatType::Fat12 => 12, FatType::Fat16 => 16, FatType::Fat32 => 32 }, bps, spc),
        fat: ft,
        bps,
        spc,
        fats: 2,
        root_entries: (bps / 32) as u16,
        clusters: Some(match ft { FatType::Fat12 => nfree as u64, FatType::Fat16 => 4085, FatType::Fat32 => 65525 }),
        free: if ft == FatType::Fat12 { None } else { Some(nfree) },
        tail: 0,
    };
    let (img, cands) = vol::build(&spec).expect("geometry volume");
    vol::cfg_from(&spec.name, img, cands)
}

pub fn specs(tier: &str) -> Vec<ExpSpec> {
    let th = is_thorough(tier);
    let mut v = Vec::new();
    for ft in [FatType::Fat12, FatType::Fat16, FatType::Fat32] {
        let cfg = vol::tiny_with(ft, 8, 16);
        v.push(ExpSpec::new(cfg.clone(), alphabet(512, true), if th { 5 } else { 3 }).with_prefix(prefix()));
        // single handle, deeper
        let mut c1 = cfg.clone();
        c1.name = format!("{}-1h", c1.name);
        v.push(ExpSpec::new(c1, alphabet(512, false), if th { 6 } else { 4 }).with_prefix(prefix()));
        // short-transferring device
        let mut c2 = cfg;
        c2.name = format!("{}-short", c2.name);
        c2.short = Short::Always;
        v.push(ExpSpec::new(c2.clone(), alphabet(512, true), if th { 3 } else { 2 }).with_prefix(prefix()));
        // storage with its own (7-byte) block size: transfers are cut at its block boundaries
        let mut c3 = c2;
        c3.name = c3.name.replace("-short", "-blk7");
        c3.short = Short::Block(7);
        v.push(ExpSpec::new(c3, alphabet(512, false), if th { 3 } else { 2 }).with_prefix(prefix()));
    }
    // two free clusters: writes that run out of space half-way
    for ft in [FatType::Fat12, FatType::Fat16, FatType::Fat32] {
        v.push(ExpSpec::new(vol::tiny_low(ft, 2, 16), alphabet(512, false), if th { 5 } else { 4 }).with_prefix(prefix()));
    }
    // FAT32 cluster numbers above 0xFFFF
    v.push(ExpSpec::new(vol::t32_high(), alphabet(512, false), if th { 4 } else { 3 }).with_prefix(prefix()));
    // the highest cluster numbers of FAT12 / FAT16 (values just below the reserved range of the width)
    for (w, name) in [(12u8, "m12-top"), (16, "m16-top")] {
        v.push(ExpSpec::new(crate::c10::mk_top(w, 8, name), alphabet(512, false), if th { 4 } else { 3 }).with_prefix(prefix()));
    }
    // other cluster sizes
    let geos: Vec<(FatType, u16, u32)> = if th {
        vec![
            (FatType::Fat12, 512, 2),
            (FatType::Fat12, 1024, 1),
            (FatType::Fat12, 4096, 1),
            (FatType::Fat12, 512, 64),
            (FatType::Fat12, 4096, 8),
            (FatType::Fat12, 4096, 16),
            (FatType::Fat16, 2048, 2),
            (FatType::Fat16, 512, 128),
            (FatType::Fat32, 512, 8),
        ]
    } else {
        vec![(FatType::Fat12, 512, 2), (FatType::Fat12, 4096, 8), (FatType::Fat12, 512, 64)]
    };
    for (ft, bps, spc) in geos {
        let cfg = geometry_cfg(ft, bps, spc, 8);
        v.push(ExpSpec::new(cfg, alphabet(bps as u32 * spc, false), if th { 3 } else { 2 }).with_prefix(prefix()));
    }
    v
}
