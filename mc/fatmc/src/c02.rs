//! C02 — a file is a growable byte array with a cursor, at every offset and buffer size.

use fatfs::FatType;
use harness::dev::Short;
use harness::explore::Checker;
use harness::oracles as o;
use harness::sess::{Cfg, DirRef, Exec, Op, SeekSpec};
use harness::vol;

use crate::common::{is_thorough, ExpSpec};

pub struct C02;

impl Checker for C02 {
    fn check(&self, cfg: &Cfg, ops: &[Op], ex: &Exec) -> Vec<(String, String)> {
        let mut v = check_one(ops, ex);
        // one retryable ("interrupted") storage error at every read / write device call of the last operation: where the
        // library absorbs it (write_all / read_exact / internal metadata I/O repeat the call) the operation must be
        // indistinguishable from the undisturbed one: same oracles
        if v.is_empty()
            && ex.panic.is_none()
            && cfg.short == Short::Exact
            && ops.len() <= 2 + 2
            && ex.calls_last <= 800
            && (cfg.name.ends_with("-1h") || cfg.name.contains("-low2"))
        {
            for k in 1..=ex.calls_last {
                let plan = harness::sess::Plan { fault: Some((k, harness::dev::ID_INTR)), ..Default::default() };
                let sx = harness::sess::run(cfg, ops, &plan);
                let Some(fd) = sx.fired else { continue };
                // (the storage contract documents retryable errors for read and write only)
                if fd.in_drop || !matches!(fd.kind, harness::dev::Kind::Read | harness::dev::Kind::Write) {
                    continue;
                }
                // the caller was told: nothing to demand here
                if !matches!(sx.outs.last(), Some(Ok(harness::sess::Out::Progress { err: None, .. })) | Some(Ok(harness::sess::Out::Bytes(_))) | Some(Ok(harness::sess::Out::Unit)) | Some(Ok(harness::sess::Out::Pos(_))) | Some(Ok(harness::sess::Out::Count(_)))) {
                    continue;
                }
                for (sig, msg) in check_one(ops, &sx) {
                    let sig = sig.replace("C02/", "C02/one-retryable-error/");
                    if !v.iter().any(|(s, _)| *s == sig) {
                        v.push((sig, format!("{msg} [device call {k} ({:?}) of the last operation answered with a retryable error]", fd.kind)));
                    }
                }
            }
        }
        v
    }
}

fn check_one(ops: &[Op], ex: &Exec) -> Vec<(String, String)> {
    let mut v = o::o_result("C02", ops, ex);
    if !v.is_empty() {
        return v;
    }
    v.extend(o::o_cursor("C02", ops, ex));
    v.extend(o::o_tree_suffix("C02", ex, false));
    v.extend(o::o_extents("C02", ex));
    // allocation invariants (a file's clusters are marked used, chains do not cross, no cluster is lost)
    v.extend(o::o_invariants("C02", ops, ex).into_iter().filter(|(s, _)| s.contains("/I1/") || s.contains("/I2/")));
    v
}

pub fn prefix() -> Vec<Op> {
    vec![
        Op::CreateFile { base: DirRef::Root, path: "f".into(), keep: Some(0) },
        Op::CreateFile { base: DirRef::Root, path: "g".into(), keep: Some(1) },
    ]
}

/// full alphabet for handle `h` on file `name`
pub fn handle_ops(h: u8, name: &str, cs: u32, full: bool) -> Vec<Op> {
    let cs64 = cs as u64;
    let csi = cs as i64;
    let mut a = Vec::new();
    let wl: Vec<u32> = if full { vec![0, 1, cs - 1, cs, cs + 1, 2 * cs + 1] } else { vec![1, cs, cs + 1] };
    for len in wl {
        a.push(Op::Write { h, len });
    }
    for len in if full { vec![cs + 1, 3 * cs] } else { vec![2 * cs + 1] } {
        a.push(Op::WriteAll { h, len });
    }
    for len in if full { vec![0, 1, cs - 1, cs, cs + 1, 3 * cs] } else { vec![1, cs + 1] } {
        a.push(Op::Read { h, len });
    }
    a.push(Op::ReadExact { h, len: 2 * cs });
    let so: Vec<u64> = if full {
        vec![0, 1, cs64 - 1, cs64, cs64 + 1, 2 * cs64 - 1, 2 * cs64, 2 * cs64 + 1, 3 * cs64]
    } else {
        vec![0, cs64 - 1, cs64, 2 * cs64 + 1]
    };
    for o in so {
        a.push(Op::Seek { h, pos: SeekSpec::Start(o) });
    }
    if full {
        for d in [1, -1, csi, -csi, 1 << 31, -(1 << 31), 1 << 32, -(1 << 32), (1 << 32) + 1, i64::MIN, i64::MAX] {
            a.push(Op::Seek { h, pos: SeekSpec::Current(d) });
        }
        for d in [0, -1, -csi, 1, -(1 << 40), 1 << 32, i64::MIN, i64::MAX] {
            a.push(Op::Seek { h, pos: SeekSpec::End(d) });
        }
        a.push(Op::Seek { h, pos: SeekSpec::Start(1 << 32) });
        a.push(Op::Seek { h, pos: SeekSpec::Start(u32::MAX as u64) });
        a.push(Op::Extents { h });
    } else {
        a.push(Op::Seek { h, pos: SeekSpec::End(-1) });
        a.push(Op::Seek { h, pos: SeekSpec::Current(-1) });
    }
    a.push(Op::Truncate { h });
    a.push(Op::CloneFile { h });
    a.push(Op::Flush { h });
    a.push(Op::DropFile { h });
    a.push(Op::OpenFile { base: DirRef::Root, path: name.into(), keep: Some(h) });
    if full {
        a.push(Op::Remount);
    }
    a
}

pub fn alphabet(cs: u32, two: bool) -> Vec<Op> {
    let mut a = handle_ops(0, "f", cs, true);
    if two {
        a.extend(handle_ops(1, "g", cs, false));
    }
    a
}

fn geometry_cfg(ft: FatType, bps: u16, spc: u32, nfree: usize) -> Cfg {
    let spec = vol::VolSpec {
        name: format!("g{}-{}x{}", match ft { FatType::Fat12 => 12, FatType::Fat16 => 16, FatType::Fat32 => 32 }, bps, spc),
        fat: ft,
        bps,
        spc,
        fats: 2,
        root_entries: (bps / 32) as u16,
        clusters: Some(match ft { FatType::Fat12 => nfree as u64, FatType::Fat16 => 4085, FatType::Fat32 => 65525 }),
        free: if ft == FatType::Fat12 { None } else { Some(nfree) },
        tail: 0,
    };
    let (img, cands) = vol::build(&spec).expect("geometry volume");
    vol::cfg_from(&spec.name, img, cands)
}

pub fn specs(tier: &str) -> Vec<ExpSpec> {
    let th = is_thorough(tier);
    let mut v = Vec::new();
    for ft in [FatType::Fat12, FatType::Fat16, FatType::Fat32] {
        let cfg = vol::tiny_with(ft, 8, 16);
        v.push(ExpSpec::new(cfg.clone(), alphabet(512, true), if th { 5 } else { 3 }).with_prefix(prefix()));
        // single handle, deeper
        let mut c1 = cfg.clone();
        c1.name = format!("{}-1h", c1.name);
        v.push(ExpSpec::new(c1, alphabet(512, false), if th { 6 } else { 4 }).with_prefix(prefix()));
        // short-transferring device
        let mut c2 = cfg;
        c2.name = format!("{}-short", c2.name);
        c2.short = Short::Always;
        v.push(ExpSpec::new(c2.clone(), alphabet(512, true), if th { 3 } else { 2 }).with_prefix(prefix()));
        // storage with its own (7-byte) block size: transfers are cut at its block boundaries
        let mut c3 = c2;
        c3.name = c3.name.replace("-short", "-blk7");
        c3.short = Short::Block(7);
        v.push(ExpSpec::new(c3, alphabet(512, false), if th { 3 } else { 2 }).with_prefix(prefix()));
    }
    // two free clusters: writes that run out of space half-way
    for ft in [FatType::Fat12, FatType::Fat16, FatType::Fat32] {
        v.push(ExpSpec::new(vol::tiny_low(ft, 2, 16), alphabet(512, false), if th { 5 } else { 4 }).with_prefix(prefix()));
    }
    // FAT32 cluster numbers above 0xFFFF
    v.push(ExpSpec::new(vol::t32_high(), alphabet(512, false), if th { 4 } else { 3 }).with_prefix(prefix()));
    // clean FAT32 volumes whose (advisory, "not necessarily correct") fs-info free count is wrong: too low / too high
    {
        for (tag, cnt) in [("fsi-count0", 0u32), ("fsi-count1", 1), ("fsi-count-high", 60_000)] {
            let mut spec = vol::tiny_spec(FatType::Fat32);
            spec.free = Some(8);
            spec.name = format!("t32-f8-{tag}");
            let (mut img, cands) = vol::build(&spec).expect("fs-info volume");
            vol::set_fsinfo(&mut img, Some(cnt), None);
            v.push(ExpSpec::new(vol::cfg_from(&spec.name, img, cands), alphabet(512, false), if th { 3 } else { 2 }).with_prefix(prefix()));
        }
    }
    // the highest cluster numbers of FAT12 / FAT16 (values just below the reserved range of the width)
    for (w, name) in [(12u8, "m12-top"), (16, "m16-top")] {
        v.push(ExpSpec::new(crate::c10::mk_top(w, 8, name), alphabet(512, false), if th { 4 } else { 3 }).with_prefix(prefix()));
    }
    // other cluster sizes
    let geos: Vec<(FatType, u16, u32)> = if th {
        vec![
            (FatType::Fat12, 512, 2),
            (FatType::Fat12, 1024, 1),
            (FatType::Fat12, 4096, 1),
            (FatType::Fat12, 512, 64),
            (FatType::Fat12, 4096, 8),
            (FatType::Fat12, 4096, 16),
            (FatType::Fat16, 2048, 2),
            (FatType::Fat16, 512, 128),
            (FatType::Fat32, 512, 8),
        ]
    } else {
        // (64 KiB clusters - legal, above what 16-bit offset arithmetic holds - in the quick tier as well)
        vec![(FatType::Fat12, 512, 2), (FatType::Fat12, 4096, 8), (FatType::Fat12, 512, 64), (FatType::Fat16, 512, 128)]
    };
    for (ft, bps, spc) in geos {
        let cfg = geometry_cfg(ft, bps, spc, 8);
        v.push(ExpSpec::new(cfg, alphabet(bps as u32 * spc, false), if th { 3 } else { 2 }).with_prefix(prefix()));
    }
    v
}

// ------------------------------------------------------------------------------------------ the 4 GiB size limit

/// A FAT file cannot be longer than 2^32 - 1 bytes. On a sparse volume that already holds a file of almost that size
/// (a chain of 131 072 clusters of 32 KiB): the cursor at the end is the size; a write there is accepted only as far as
/// the limit allows, what was reported as written is readable and recorded, and the size never wraps around.
pub fn size_limit_checks() -> (Vec<(String, String)>, u64) {
    use crate::c20::{sparse_with, BigFile, Shape};
    use fatfs::{Read, Seek, SeekFrom, Write};
    use harness::dev::{new_dev, MemDev};
    use harness::sess;
    use std::cell::Cell;
    use std::rc::Rc;
    let shape = Shape { name: "s512-5GiB", bps: 512, spc: 64, clusters: 170_000 };
    let cs = 32_768u64;
    let mut v = Vec::new();
    let mut n = 0u64;
    // sizes: 15 bytes below the limit (inside the last possible cluster), one whole cluster below it (the next write
    // has to allocate the last possible cluster), at the limit
    for size in [0xFFFF_FFF0u32, 0xFFFF_8000, 0xFFFF_FFFF] {
        for (wlen, all) in [(1usize, false), (32, false), (40_000, false), (1, true), (32, true), (40_000, true)] {
            n += 1;
            let len = ((size as u64 + cs - 1) / cs) as u32;
            let big = BigFile { start: 10, len, size };
            let free: Vec<u32> = (10 + len..10 + len + 4).collect();
            let sp = sparse_with(&shape, &free, free[0], "size-limit", Some(big));
            let (st, _d) = new_dev(&sp.cfg.base);
            let ctr = Rc::new(Cell::new(0u32));
            let ctx = format!("file of {size:#x} bytes, {} of {wlen} bytes at its end", if all { "write_all" } else { "write" });
            let r = sess::guarded(|| -> Result<(), (String, String)> {
                let fs = sess::mount(MemDev::new(st.clone()), &sp.cfg, &ctr).map_err(|e| ("C02/machinery/size-limit/mount".to_string(), format!("{:?}", sess::ek(e))))?;
                let mut f = fs.root_dir().open_file("BIG.BIN").map_err(|e| ("C02/machinery/size-limit/open".to_string(), format!("{:?}", sess::ek(e))))?;
                let end = f.seek(SeekFrom::End(0)).map_err(|e| ("C02/size-limit/seek-end-failed".to_string(), format!("{ctx}: {:?}", sess::ek(e))))?;
                if end != size as u64 {
                    return Err(("C02/size-limit/seek-end".into(), format!("{ctx}: seek(End(0)) = {end:#x}")));
                }
                let buf: Vec<u8> = (0..wlen).map(|i| 0x40 | (i as u8 & 0x3F)).collect();
                let room = (0xFFFF_FFFFu64 - size as u64) as usize;
                let acc = if all {
                    // write_all: complete success iff everything fits below the limit, otherwise an error after the part that fits
                    let r = f.write_all(&buf);
                    let pos = f.seek(SeekFrom::Current(0)).map_err(|e| ("C02/size-limit/tell-failed".to_string(), format!("{ctx}: {:?}", sess::ek(e))))?;
                    let a = (pos - size as u64) as usize;
                    match r {
                        Ok(()) if wlen > room => return Err(("C02/size-limit/write_all-reports-success-beyond-the-limit".into(), format!("{ctx}: Ok(()) although only {room} bytes fit ({a} accepted)"))),
                        Ok(()) if a != wlen => return Err(("C02/size-limit/write_all-short-without-error".into(), format!("{ctx}: Ok(()) with {a} bytes accepted"))),
                        Err(e) if wlen <= room => return Err(("C02/size-limit/write-failed".into(), format!("{ctx}: {:?}", sess::ek(e)))),
                        Err(_) if a != room => return Err(("C02/size-limit/bytes-accepted".into(), format!("{ctx}: write_all failed after {a} bytes, {room} fit below the 4 GiB limit"))),
                        _ => a,
                    }
                } else { match f.write(&buf) {
                    Ok(a) => a,
                    Err(e) => match sess::ek(e) {
                        // nothing fits: refusing is as good as accepting 0 bytes
                        harness::model::ErrKind::WriteZero | harness::model::ErrKind::InvalidInput | harness::model::ErrKind::NotEnoughSpace if room == 0 => 0,
                        k => return Err(("C02/size-limit/write-failed".into(), format!("{ctx}: {k:?}"))),
                    },
                } };
                if acc > wlen.min(room) || (room > 0 && acc == 0) {
                    return Err(("C02/size-limit/bytes-accepted".into(), format!("{ctx}: {acc} bytes accepted, {} fit below the 4 GiB limit", wlen.min(room))));
                }
                let pos = f.seek(SeekFrom::Current(0)).map_err(|e| ("C02/size-limit/tell-failed".to_string(), format!("{ctx}: {:?}", sess::ek(e))))?;
                if pos != size as u64 + acc as u64 {
                    return Err(("C02/size-limit/cursor-after-write".into(), format!("{ctx}: {acc} bytes accepted, cursor at {pos:#x}")));
                }
                f.flush().map_err(|e| ("C02/size-limit/flush-failed".to_string(), format!("{ctx}: {:?}", sess::ek(e))))?;
                // what was reported as written is there, and so are the bytes before it
                let back = 16u64.min(size as u64);
                f.seek(SeekFrom::Start(size as u64 - back)).map_err(|e| ("C02/size-limit/seek-back-failed".to_string(), format!("{ctx}: {:?}", sess::ek(e))))?;
                let mut rb = vec![0xEEu8; back as usize + acc + 8];
                let mut got = 0;
                loop {
                    match f.read(&mut rb[got..]) {
                        Ok(0) => break,
                        Ok(k) => got += k,
                        Err(e) => return Err(("C02/size-limit/read-back-failed".into(), format!("{ctx}: {:?}", sess::ek(e)))),
                    }
                }
                let mut want = vec![0u8; back as usize];
                want.extend_from_slice(&buf[..acc]);
                if rb[..got] != want[..] {
                    return Err(("C02/size-limit/read-back".into(), format!("{ctx}: {got} bytes read back from {:#x}, expected {} ({} old + {acc} written)", size as u64 - back, want.len(), back)));
                }
                // a second write at the limit adds nothing
                if room <= wlen {
                    let again = f.write(&buf).unwrap_or(0);
                    if again != 0 {
                        return Err(("C02/size-limit/write-beyond-the-limit".into(), format!("{ctx}: a further write at {:#x} accepted {again} bytes", size as u64 + acc as u64)));
                    }
                }
                drop(f);
                // recorded size
                let root_off = harness::decoder::parse_raw(&st.borrow().read_vec(0, 512)).map(|g| g.cluster_off(2) as u64).unwrap_or(0);
                let raw = st.borrow().read_vec(root_off, 32);
                let rec = u32::from_le_bytes([raw[28], raw[29], raw[30], raw[31]]);
                if rec as u64 != size as u64 + acc as u64 {
                    return Err(("C02/size-limit/recorded-size".into(), format!("{ctx}: directory entry records {rec:#x}, expected {:#x}", size as u64 + acc as u64)));
                }
                fs.unmount().map_err(|e| ("C02/size-limit/unmount-failed".to_string(), format!("{ctx}: {:?}", sess::ek(e))))?;
                Ok(())
            });
            match r {
                Err(p) => v.push((format!("C02/size-limit/panic/{}", crate::c06::panic_class(&p)), format!("{ctx}: {p}"))),
                Ok(Err(x)) => v.push(x),
                Ok(Ok(())) => {}
            }
        }
    }
    v.sort();
    v.dedup_by(|a, b| a.0 == b.0);
    (v, n)
}
