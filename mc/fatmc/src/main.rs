mod c01;
mod alpha;
mod c02;
mod c03;
mod c05;
mod c06;
mod c07;
mod c08;
mod c09;
mod c10;
mod c11;
mod c12;
mod c13;
mod c14;
mod c15;
mod c16;
mod c17;
mod c18;
mod c19;
mod c20;
mod stdio;
mod common;
mod selftest;

use harness::explore::Checker;

fn usage() -> ! {
    eprintln!("usage: fatmc <Cxx> <quick|thorough> | fatmc <Cxx> --replay <file> | fatmc selftest");
    std::process::exit(2)
}

/// logger that formats every record (and throws the text away): the library is built with its default log level
/// (trace), so the arguments of its log macros are evaluated exactly as for a user who installs a logger
struct SinkLogger;
impl log::Log for SinkLogger {
    fn enabled(&self, _: &log::Metadata) -> bool {
        true
    }
    fn log(&self, r: &log::Record) {
        let s = format!("{}", r.args());
        std::hint::black_box(s);
    }
    fn flush(&self) {}
}
static SINK: SinkLogger = SinkLogger;

fn main() {
    harness::sess::install_panic_hook();
    if std::env::var("VERIF_NO_LOG_SINK").is_err() {
        let _ = log::set_logger(&SINK);
        log::set_max_level(log::LevelFilter::Trace);
    }
    let args: Vec<String> = std::env::args().collect();
    if args.len() < 3 {
        usage();
    }
    let prop = args[1].as_str();
    if prop == "selftest" {
        std::process::exit(selftest::run());
    }
    let replay = if args[2] == "--replay" { Some(args.get(3).cloned().unwrap_or_else(|| usage())) } else { None };
    let tier = if replay.is_some() { "thorough".to_string() } else { args[2].clone() };
    if let Ok(t) = std::env::var("VERIF_THREADS") {
        if let Ok(n) = t.parse::<usize>() {
            rayon::ThreadPoolBuilder::new().num_threads(n).build_global().ok();
        }
    }
    // enumeration-style checks replay by re-running the enumeration and looking for the recorded signature
    if let Some(path) = &replay {
        if matches!(prop, "C06" | "C07" | "C08" | "C15" | "C16" | "C17" | "C19") {
            let v: serde_json::Value = serde_json::from_str(&std::fs::read_to_string(path).expect("replay file")).expect("json");
            std::env::set_var("VERIF_REPLAY_SIG", v["signature"].as_str().unwrap_or(""));
            std::env::set_var("VERIF_REPLAY_PATH", path);
        }
    }
    let tier = if std::env::var("VERIF_REPLAY_SIG").is_ok() { "quick".to_string() } else { tier };
    let code = match prop {
        "C01" => explorer(prop, &tier, replay, c01::specs(&tier), &c01::C01),
        "C02" => match replay {
            Some(p) => common::replay_explorer(prop, &p, c02::specs(&tier), &c02::C02),
            None => common::run_explorer_ext(
                prop,
                &tier,
                c02::specs(&tier),
                &c02::C02,
                "explicit-state exploration of the real crate (replay-from-history BFS) against a reference model and an independent FAT decoder",
                vec![
                    "independent decoder implements the FAT specification correctly (anchored to Linux-made images)".into(),
                    "library is deterministic given device, clock and call sequence (re-execution sample checked on every run)".into(),
                ],
                "model_checking",
                &|rep: &mut harness::report::Report| {
                    add_stdio(rep, "C02", &tier, 0, &["std-io/semantics", "std-io/content", "std-io/panic", "std-io/unmount", "std-io/remount", "std-io/reopen", "std-io/read-back"]);
                    let (viols, n) = c02::size_limit_checks();
                    for (sig, msg) in viols {
                        rep.add(common::violation("C02", &sig, &msg, "s512-5GiB-size-limit"), serde_json::json!({"check": "C02", "size-limit": msg}));
                    }
                    if let Some(o) = rep.coverage.as_object_mut() {
                        o.insert("size_limit_cases".into(), n.into());
                    }
                },
            ),
        },
        "C03" => explorer(prop, &tier, replay, c03::specs(&tier, prop), &c03::C03),
        "C05" => explorer(prop, &tier, replay, c05::specs(&tier), &c05::C05),
        "C06" => {
            c06::run(&tier)
        }
        "C07" => c07::run(&tier),
        "C08" => c08::run(&tier),
        "C09" => {
            let ctr = std::sync::Arc::new(c09::Counters::default());
            let ck = c09::C09 { ctr: ctr.clone() };
            match replay {
                Some(p) => common::replay_explorer(prop, &p, c09::specs(&tier), &ck),
                None => common::run_explorer_ext(
                    prop,
                    &tier,
                    c09::specs(&tier),
                    &ck,
                    "exhaustive single-fault enumeration: every device call of the last operation of every explored history is failed in turn on the real crate",
                    vec!["a fault is a single failing device call; calls issued from destructors are exempt (drop_depth hook)".into()],
                    "fault_enumeration",
                    &|rep: &mut harness::report::Report| {
                        use std::sync::atomic::Ordering;
                        for (sig, msg, cfg) in c09::format_faults(&ctr) {
                            rep.add(common::violation("C09", &sig, &msg, &cfg), serde_json::json!({"check": "C09", "format": cfg}));
                        }
                        // storage errors through the std::io facade keep their kind and payload
                        add_stdio(rep, "C09", &tier, if common::is_thorough(&tier) { 3 } else { 2 }, &["std-io/storage-error", "std-io/panic"]);
                        let outcomes = ctr.outcomes.lock().unwrap().clone();
                        let o = rep.coverage.as_object_mut().unwrap();
                        o.insert("evaluations".into(), ctr.fault_points.load(Ordering::Relaxed).into());
                        o.insert("distinct_nontrivial".into(), outcomes.iter().filter(|(k, _)| !k.ends_with("not-reached")).count().into());
                        o.insert("rule".into(), "for every explored (history, last operation): fault-free run gives N device calls; then N re-executions each failing call k=1..N with a unique error id; non-trivial/distinct = distinct (operation kind, device call kind, outcome) triples in which the fault actually fired".into());
                        o.insert("fault_points_fired".into(), ctr.fired.load(Ordering::Relaxed).into());
                        o.insert("fault_points_fired_in_destructor".into(), ctr.fired_in_drop.load(Ordering::Relaxed).into());
                        o.insert("fault_points_not_reached".into(), ctr.not_fired.load(Ordering::Relaxed).into());
                        o.insert("operations_with_strided_positions".into(), ctr.strided_ops.load(Ordering::Relaxed).into());
                        o.insert("fault_outcomes".into(), serde_json::to_value(outcomes).unwrap());
                        let mut samples = ctr.samples.lock().unwrap().clone();
                        if samples.is_empty() {
                            samples.push(serde_json::json!("no fault-free sample recorded"));
                        }
                        o.insert("samples".into(), samples.into());
                    },
                ),
            }
        }
        "C15" => c15::run(&tier),
        "C16" => c16::run(&tier),
        "C17" => c17::run(&tier),
        "C19" => c19::run(&tier),
        "C20" => explorer(prop, &tier, replay, c20::specs(&tier), &c20::C20),
        "C18" => match replay {
            Some(p) => common::replay_explorer(prop, &p, c18::specs(&tier), &c18::C18),
            None => {
                let deadline = std::time::Instant::now() + common::wall_budget(&tier) / 2;
                let (dv, devals, dexh) = c18::domain(&tier, deadline);
                common::run_explorer_ext(
                    prop,
                    &tier,
                    c18::specs(&tier),
                    &c18::C18,
                    "full-domain enumeration of dates and times through set_*/flush/re-list + explicit-state exploration of the stamping rules under a counter clock",
                    vec!["timestamps of directories: only the creation stamp is checked strictly (modification/access of a directory entry change when the directory is written/read)".into()],
                    "model_checking",
                    &|rep: &mut harness::report::Report| {
                        for (sig, msg) in &dv {
                            rep.add(common::violation("C18", sig, msg, "timestamp-domain"), serde_json::json!({"check": "C18", "case": msg}));
                        }
                        let o = rep.coverage.as_object_mut().unwrap();
                        o.insert("domain_roundtrips".into(), devals.into());
                        o.insert("domain_exhaustive".into(), dexh.into());
                        o.insert("domain_rule".into(), "every (year, month, day) accepted by Date::new (1980..=2107 x 1..=12 x 1..=31) with one time; every time of day (thorough: all 8 640 000 ten-millisecond steps + all millisecond values of 4 seconds; quick: all 86 400 seconds x millis in {0,10,990,995} + all 200 fine-resolution values per hour) with one date; each through open_file -> set_created/set_modified/set_accessed -> flush -> drop -> re-list, accessors and raw words compared with an independent DOS packing".into());
                    },
                )
            }
        },
        "C14" => {
            let ctr = std::sync::Arc::new(c14::Counters::default());
            let ck = c14::C14 { ctr: ctr.clone(), subsets: common::is_thorough(&tier) };
            match replay {
                Some(p) => common::replay_explorer(prop, &p, c14::specs(&tier), &ck),
                None => common::run_explorer_ext(
                    prop,
                    &tier,
                    c14::specs(&tier),
                    &ck,
                    "exhaustive crash-point enumeration over the device write log of every explored history: every prefix, every flush-epoch loss (thorough: bounded subsets of unflushed writes), each crash image remounted and independently decoded",
                    vec!["whole-call write granularity (no torn sectors); the device honours flush as a barrier".into()],
                    "fault_enumeration",
                    &|rep: &mut harness::report::Report| {
                        use std::sync::atomic::Ordering;
                        let classes = ctr.classes.lock().unwrap().clone();
                        let o = rep.coverage.as_object_mut().unwrap();
                        o.insert("evaluations".into(), ctr.crash_images.load(Ordering::Relaxed).into());
                        o.insert("distinct_nontrivial".into(), ctr.durable_nodes.load(Ordering::Relaxed).into());
                        o.insert("rule".into(), "for every explored history containing a durability point (successful flush/drop of f, f not modified afterwards): crash images = every prefix of the last operation's device writes + loss of everything after the last device flush before each cut (+ subsets in the thorough tier); distinct_nontrivial = number of distinct explored histories with a durability point (each contributes >= 1 crash image)".into());
                        o.insert("crash_image_classes".into(), serde_json::to_value(classes).unwrap());
                        let mut samples = ctr.samples.lock().unwrap().clone();
                        if samples.is_empty() {
                            samples.push(serde_json::json!("no sample recorded"));
                        }
                        o.insert("samples".into(), samples.into());
                        // a flush through the std::io::Write impl of File reaches the storage as a flush
                        add_stdio(rep, "C14", &tier, 0, &["std-io/flush-not-forwarded"]);
                    },
                ),
            }
        }
        "C10" => {
            let specs = c10::specs(&tier);
            let cfgs: Vec<_> = specs.iter().map(|s| s.cfg.clone()).collect();
            let ck = c10::checker(&cfgs);
            explorer(prop, &tier, replay, specs, &ck)
        }
        "C11" => explorer(prop, &tier, replay, c11::specs(&tier), &c11::C11),
        "C12" => match replay {
            Some(p) => common::replay_explorer(prop, &p, c12::specs(&tier), &c12::C12),
            None => common::run_explorer_ext(
                prop,
                &tier,
                c12::specs(&tier),
                &c12::C12,
                "explicit-state exploration of the real crate (replay-from-history BFS): status byte at every call boundary and at every device write inside a call (crash-point enumeration from the device log), abandonment remount, fault enumeration with follow-up calls",
                vec![
                    "independent decoder implements the FAT specification correctly (anchored to Linux-made images)".into(),
                    "library is deterministic given device, clock and call sequence (re-execution sample checked on every run)".into(),
                ],
                "model_checking",
                &|rep: &mut harness::report::Report| {
                    use std::sync::atomic::Ordering::Relaxed;
                    let o = rep.coverage.as_object_mut().unwrap();
                    o.insert("in_call_crash_points".into(), serde_json::json!({
                        "calls_that_started_on_a_clean_status_byte_and_wrote": c12::INCALL_CALLS.load(Relaxed),
                        "images_rebuilt_and_decoded_while_the_status_byte_said_clean": c12::INCALL_IMAGES.load(Relaxed),
                        "rule": "for every explored call whose pre-image has bit 0 of the status byte clear: the call's device writes are applied one at a time; until the status byte of the rebuilt image has bit 0 set, its independent decode must equal the decode of the pre-image",
                    }));
                    o.insert("fault_follow_up_runs".into(), c12::FAULT_RUNS.load(Relaxed).into());
                },
            ),
        },
        "C13" => explorer(prop, &tier, replay, c13::specs(&tier), &c13::C13),
        "C04" => explorer(prop, &tier, replay, c03::specs(&tier, prop), &c03::C04),
        _ => usage(),
    };
    std::process::exit(code);
}

/// the std::io facade (StdIoWrapper + the std trait impls of File) driven by its own small exhaustive explorer
fn add_stdio(rep: &mut harness::report::Report, prop: &str, tier: &str, fault_depth: usize, keep: &[&str]) {
    let th = common::is_thorough(tier);
    let mut hist = 0;
    let mut faults = 0;
    for ft in [fatfs::FatType::Fat12, fatfs::FatType::Fat32] {
        // (24 free clusters: the byte-vector model has no notion of a full volume; the deepest history writes 9 clusters)
        let cfg = harness::vol::tiny_with(ft, 24, 16);
        // (FAT32: one level less for the fault enumeration - every allocation there issues far more device calls)
        let fd = if ft == fatfs::FatType::Fat32 { fault_depth.saturating_sub(1) } else { fault_depth };
        // mounting through the facade under fault (StdIoWrapper::read_exact is only used on the raw storage)
        if fault_depth > 0 {
            for (sig, msg) in stdio::mount_faults(&cfg) {
                rep.add(common::violation(prop, &format!("{prop}/{sig}"), &msg, &format!("{}-std-io", cfg.name)), serde_json::json!({"check": prop, "std-io": msg}));
            }
        }
        let s = stdio::explore(&cfg, if th { 4 } else { 3 }, fd, &|sig| keep.iter().any(|k| sig.starts_with(k)));
        hist += s.histories;
        faults += s.fault_runs;
        for (sig, msg) in s.viols {
            rep.add(common::violation(prop, &format!("{prop}/{sig}"), &msg, &format!("{}-std-io", cfg.name)), serde_json::json!({"check": prop, "std-io": msg}));
        }
    }
    if let Some(o) = rep.coverage.as_object_mut() {
        o.insert("std_io_facade_histories".into(), hist.into());
        o.insert("std_io_facade_fault_runs".into(), faults.into());
        o.insert(
            "std_io_facade".into(),
            "every history of 1..=3 (thorough 4) std::io trait calls (write, write_all, read, read_exact, read_to_end, seek Start/Current/End, flush) on one file through StdIoWrapper over a std::io storage, against a byte-vector model; content re-read after remount".into(),
        );
    }
}

fn explorer(prop: &str, tier: &str, replay: Option<String>, specs: Vec<common::ExpSpec>, checker: &dyn Checker) -> i32 {
    match replay {
        Some(p) => common::replay_explorer(prop, &p, specs, checker),
        None => common::run_explorer(
            prop,
            tier,
            specs,
            checker,
            "explicit-state exploration of the real crate (replay-from-history BFS) against a reference model and an independent FAT decoder",
            vec![
                "independent decoder implements the FAT specification correctly (anchored to Linux-made images)".into(),
                "library is deterministic given device, clock and call sequence (re-execution sample checked on every run)".into(),
            ],
        ),
    }
}
