mod c01;
mod alpha;
mod c02;
mod c03;
mod c05;
mod c10;
mod c11;
mod c12;
mod c13;
mod common;
mod selftest;

use harness::explore::Checker;

fn usage() -> ! {
    eprintln!("usage: fatmc <Cxx> <quick|thorough> | fatmc <Cxx> --replay <file> | fatmc selftest");
    std::process::exit(2)
}

fn main() {
    harness::sess::install_panic_hook();
    let args: Vec<String> = std::env::args().collect();
    if args.len() < 3 {
        usage();
    }
    let prop = args[1].as_str();
    if prop == "selftest" {
        std::process::exit(selftest::run());
    }
    let replay = if args[2] == "--replay" { Some(args.get(3).cloned().unwrap_or_else(|| usage())) } else { None };
    let tier = if replay.is_some() { "thorough".to_string() } else { args[2].clone() };
    if let Ok(t) = std::env::var("VERIF_THREADS") {
        if let Ok(n) = t.parse::<usize>() {
            rayon::ThreadPoolBuilder::new().num_threads(n).build_global().ok();
        }
    }
    let code = match prop {
        "C01" => explorer(prop, &tier, replay, c01::specs(&tier), &c01::C01),
        "C02" => explorer(prop, &tier, replay, c02::specs(&tier), &c02::C02),
        "C03" => explorer(prop, &tier, replay, c03::specs(&tier, prop), &c03::C03),
        "C05" => explorer(prop, &tier, replay, c05::specs(&tier), &c05::C05),
        "C10" => {
            let specs = c10::specs(&tier);
            let cfgs: Vec<_> = specs.iter().map(|s| s.cfg.clone()).collect();
            let ck = c10::checker(&cfgs);
            explorer(prop, &tier, replay, specs, &ck)
        }
        "C11" => explorer(prop, &tier, replay, c11::specs(&tier), &c11::C11),
        "C12" => explorer(prop, &tier, replay, c12::specs(&tier), &c12::C12),
        "C13" => explorer(prop, &tier, replay, c13::specs(&tier), &c13::C13),
        "C04" => explorer(prop, &tier, replay, c03::specs(&tier, prop), &c03::C04),
        _ => usage(),
    };
    std::process::exit(code);
}

fn explorer(prop: &str, tier: &str, replay: Option<String>, specs: Vec<common::ExpSpec>, checker: &dyn Checker) -> i32 {
    match replay {
        Some(p) => common::replay_explorer(prop, &p, specs, checker),
        None => common::run_explorer(
            prop,
            tier,
            specs,
            checker,
            "explicit-state exploration of the real crate (replay-from-history BFS) against a reference model and an independent FAT decoder",
            vec![
                "independent decoder implements the FAT specification correctly (anchored to Linux-made images)".into(),
                "library is deterministic given device, clock and call sequence (re-execution sample checked on every run)".into(),
            ],
        ),
    }
}
