//! C07 — mounting is total: garbage is rejected, never trusted and never a panic.
//! Bounded-exhaustive enumeration of boot-sector / fs-info contents on top of valid images.

use std::collections::BTreeMap;
use std::sync::atomic::{AtomicU64, Ordering};
use std::sync::Arc;
use std::time::Instant;

use fatfs::{FatType, FileSystem, FsOptions};
use harness::builder::{Builder, MkSpec};
use harness::decoder;
use harness::dev::{new_dev, Base, MemDev};
use harness::report::Report;
use harness::sess;
use harness::vol;
use rayon::prelude::*;
use serde_json::json;

use crate::c06::panic_class;
use crate::common::{is_thorough, violation, wall_budget};

#[derive(Clone, Copy, Debug)]
pub struct Field {
    pub name: &'static str,
    pub off: usize,
    pub size: usize,
    pub geometry: bool,
}

pub fn fields(layout32: bool) -> Vec<Field> {
    let f = |name, off, size, geometry| Field { name, off, size, geometry };
    let mut v = vec![
        f("bytes_per_sector", 11, 2, true),
        f("sectors_per_cluster", 13, 1, true),
        f("reserved_sectors", 14, 2, false),
        f("fats", 16, 1, true),
        f("root_entries", 17, 2, false),
        f("total_sectors_16", 19, 2, true),
        f("media", 21, 1, false),
        f("sectors_per_fat_16", 22, 2, true),
        f("sectors_per_track", 24, 2, false),
        f("heads", 26, 2, false),
        f("hidden_sectors", 28, 4, false),
        f("total_sectors_32", 32, 4, true),
    ];
    if layout32 {
        v.extend([
            f("sectors_per_fat_32", 36, 4, true),
            f("extended_flags", 40, 2, false),
            f("fs_version", 42, 2, false),
            f("root_cluster", 44, 4, false),
            f("fs_info_sector", 48, 2, false),
            f("backup_boot_sector", 50, 2, false),
            f("drive_num", 64, 1, false),
            f("status", 65, 1, false),
            f("ext_sig", 66, 1, false),
            f("volume_id", 67, 4, false),
        ]);
    } else {
        v.extend([f("drive_num", 36, 1, false), f("status", 37, 1, false), f("ext_sig", 38, 1, false), f("volume_id", 39, 4, false)]);
    }
    v.extend([f("boot_sig_0", 510, 1, false), f("boot_sig_1", 511, 1, false), f("jump", 0, 1, false)]);
    v
}

pub fn b32(clusters: u64) -> Vec<u32> {
    let mut v: Vec<u64> = vec![0, 1, 2, 3];
    for k in 2..=32u32 {
        let p = 1u64 << k;
        v.extend([p - 1, p, p + 1]);
    }
    v.extend([0x0FFF_FFF5, 0x0FFF_FFF6, 0x0FFF_FFF7, 0x0FFF_FFF8, clusters + 1, clusters + 2, clusters + 3]);
    let mut v: Vec<u32> = v.into_iter().filter(|x| *x <= u32::MAX as u64).map(|x| x as u32).collect();
    v.sort_unstable();
    v.dedup();
    v
}

/// boundary set of a field (for pairs / triples): truncated to the field width, plus the base value
pub fn boundary(f: &Field, base: u32, n: usize) -> Vec<u32> {
    let max: u64 = if f.size == 4 { u32::MAX as u64 } else { (1u64 << (8 * f.size)) - 1 };
    let mut v: Vec<u64> = vec![0, 1, 2, 3, 4, 7, 8, 16, 32, 64, 127, 128, 255, 256, 511, 512, 513, 1024, 4096, 8192, 0x7FFF, 0x8000, 0xFFFF, 0x10000, 0x7FFF_FFFF, 0x8000_0000, 0xFFFF_FFFF];
    v.retain(|x| *x <= max);
    v.push(base as u64);
    v.push(max);
    v.push((base as u64 + 1).min(max));
    v.push((base as u64).saturating_sub(1));
    let mut v: Vec<u32> = v.into_iter().map(|x| x as u32).collect();
    v.sort_unstable();
    v.dedup();
    if v.len() > n {
        // keep the base value, the extremes and an even spread
        let mut keep: Vec<u32> = vec![base, 0, max as u32];
        let step = v.len() as f64 / (n - 3) as f64;
        let mut i = 0.0;
        while (i as usize) < v.len() && keep.len() < n {
            keep.push(v[i as usize]);
            i += step;
        }
        // the sector size keeps every legal value in every pair / triple set: sector-size dependent arithmetic (rounding
        // of the root directory, sectors per FAT, fs-info position) has to meet every other changed field on large sectors too
        if f.name == "bytes_per_sector" {
            keep.extend([512, 1024, 2048, 4096]);
        }
        keep.sort_unstable();
        keep.dedup();
        keep
    } else {
        v
    }
}

fn get(b: &[u8], f: &Field) -> u32 {
    match f.size {
        1 => b[f.off] as u32,
        2 => u16::from_le_bytes([b[f.off], b[f.off + 1]]) as u32,
        _ => u32::from_le_bytes([b[f.off], b[f.off + 1], b[f.off + 2], b[f.off + 3]]),
    }
}

fn put(b: &mut [u8], f: &Field, v: u32) {
    match f.size {
        1 => b[f.off] = v as u8,
        2 => b[f.off..f.off + 2].copy_from_slice(&(v as u16).to_le_bytes()),
        _ => b[f.off..f.off + 4].copy_from_slice(&v.to_le_bytes()),
    }
}

pub struct BaseImg {
    pub name: String,
    pub base: Arc<Base>,
    pub boot: Vec<u8>,
    pub fsinfo_off: Option<u64>,
    pub fsinfo: Vec<u8>,
}

pub fn bases() -> Vec<BaseImg> {
    let mut v = Vec::new();
    let mut add = |name: &str, img: Vec<u8>| {
        let g = decoder::parse_raw(&img[..512]).unwrap();
        let fo = if g.width == 32 { Some(g.fsinfo_sector as u64 * g.bps as u64) } else { None };
        let fsinfo = fo.map(|o| img[o as usize..o as usize + 512].to_vec()).unwrap_or_default();
        let boot = img[..512].to_vec();
        v.push(BaseImg { name: name.to_string(), base: Arc::new(Base::Bytes(img)), boot, fsinfo_off: fo, fsinfo });
    };
    for ft in [FatType::Fat12, FatType::Fat16, FatType::Fat32] {
        let c = vol::tiny(ft);
        let Base::Bytes(img) = &*c.base else { unreachable!() };
        add(&c.name, img.clone());
    }
    // builder-made: FAT32 with mirroring off (active copy 1) and 4096-byte sectors
    let mut s = MkSpec::new(32);
    s.bps = 4096;
    s.ext_flags = 0x81;
    s.reserved = 8;
    let mut b = Builder::new(s);
    b.ballast(&[3, 4, 5]);
    b.set_fsinfo(3, 3);
    add("b32-4096-active1", b.finish());
    // builder-made FAT16 with 3 FATs and reserved 4
    let mut s = MkSpec::new(16);
    s.nfats = 3;
    s.reserved = 4;
    let mut b = Builder::new(s);
    b.ballast(&[2, 3, 4]);
    add("b16-3f-res4", b.finish());
    v
}

#[derive(Default)]
struct Acc {
    evals: AtomicU64,
    accepted: AtomicU64,
    rejected: AtomicU64,
}

/// one mount attempt on (base + patches); returns a violation if any
fn attempt(bi: &BaseImg, patches: &[(u64, Vec<u8>)], truncate_to: Option<u64>, strict: bool, acc: &Acc, what: &str) -> Option<(String, String)> {
    acc.evals.fetch_add(1, Ordering::Relaxed);
    let (st, dev) = new_dev(&bi.base);
    {
        let mut s = st.borrow_mut();
        for (off, data) in patches {
            s.write_at(*off, data);
        }
        if let Some(t) = truncate_to {
            s.len = t;
        }
        s.arm(None, Some(3_000_000));
    }
    let boot = st.borrow().read_vec(0, 512);
    let r = sess::guarded(|| -> Result<(u8, u32, u32), String> {
        let fs = FileSystem::new(dev, FsOptions::new().strict(strict)).map_err(|e| format!("{:?}", sess::ek(e)))?;
        let w = match fs.fat_type() {
            FatType::Fat12 => 12,
            FatType::Fat16 => 16,
            FatType::Fat32 => 32,
        };
        let cs = fs.cluster_size();
        let total = fs.stats().map(|s| s.total_clusters());
        let _ = fs.root_dir().iter().next();
        let _ = fs.read_status_flags();
        drop(fs);
        Ok((w, cs, total.unwrap_or(u32::MAX)))
    });
    let ctx = || format!("{} [{}] strict={strict}", bi.name, what);
    if st.borrow().budget_hit {
        return Some((format!("C07/hang/{}", what.split('=').next().unwrap_or(what)), format!("{}: device-call budget exceeded", ctx())));
    }
    match r {
        Err(p) => Some((format!("C07/panic/{}", panic_class(&p)), format!("{}: {p}", ctx()))),
        Ok(Err(_)) => {
            acc.rejected.fetch_add(1, Ordering::Relaxed);
            None
        }
        Ok(Ok((w, cs, total))) => {
            acc.accepted.fetch_add(1, Ordering::Relaxed);
            let reasons = decoder::incoherent_reasons(&boot);
            if !reasons.is_empty() {
                let class = reasons[0].split(|c: char| c.is_ascii_digit()).next().unwrap_or("").trim().replace(' ', "-");
                return Some((format!("C07/accepted-incoherent/{class}"), format!("{}: accepted although {reasons:?}", ctx())));
            }
            let g = decoder::parse_raw(&boot).unwrap();
            if g.layout32 && g.ext_flags & 0x80 != 0 && (g.ext_flags & 0x0F) as u32 >= g.nfats {
                return Some(("C07/accepted-incoherent/active-FAT-copy-does-not-exist".into(), format!("{}: accepted although active copy {} of {} FATs", ctx(), g.ext_flags & 0x0F, g.nfats)));
            }
            if w != g.width || cs as u64 != g.cluster_size() || (total != u32::MAX && total as u64 != g.clusters) {
                return Some((
                    "C07/accepted-geometry-differs-from-independent-parse".into(),
                    format!("{}: library (width {w}, cluster {cs}, clusters {total}) vs independent ({}, {}, {})", ctx(), g.width, g.cluster_size(), g.clusters),
                ));
            }
            None
        }
    }
}

pub fn run(tier: &str) -> i32 {
    let th = is_thorough(tier);
    let t0 = Instant::now();
    let deadline = t0 + wall_budget(tier);
    let acc = Acc::default();
    let bases = bases();
    let mut all: BTreeMap<String, (String, u64)> = BTreeMap::new();
    let mut classes: BTreeMap<String, u64> = BTreeMap::new();
    let mut capped = false;
    let mut sample = Vec::new();
    for bi in &bases {
        let g = decoder::parse_raw(&bi.boot).unwrap();
        let fl = fields(g.layout32);
        // (1)(2)(4): every value of 8/16-bit fields, B32 for 32-bit fields
        let mut jobs: Vec<(String, Vec<(u64, Vec<u8>)>, Option<u64>)> = Vec::new();
        for f in &fl {
            let vals: Vec<u32> = match f.size {
                1 => (0..=255).collect(),
                2 => (0..=65535).collect(),
                _ => b32(g.clusters),
            };
            for v in vals {
                let mut b = bi.boot.clone();
                put(&mut b, f, v);
                jobs.push((format!("{}={v:#x}", f.name), vec![(0, b)], None));
            }
        }
        // (3) pairs on boundary sets, triples on the geometry fields
        let nb = if th { 24 } else { 10 };
        for (i, f1) in fl.iter().enumerate() {
            for f2 in fl.iter().skip(i + 1) {
                if f1.name.starts_with("boot_sig") || f2.name.starts_with("boot_sig") || f1.name == "jump" || f2.name == "jump" {
                    continue;
                }
                for v1 in boundary(f1, get(&bi.boot, f1), nb) {
                    for v2 in boundary(f2, get(&bi.boot, f2), nb) {
                        let mut b = bi.boot.clone();
                        put(&mut b, f1, v1);
                        put(&mut b, f2, v2);
                        jobs.push((format!("{}+{}={v1:#x},{v2:#x}", f1.name, f2.name), vec![(0, b)], None));
                    }
                }
            }
        }
        let geo: Vec<&Field> = fl.iter().filter(|f| f.geometry).collect();
        let nt = if th { 14 } else { 6 };
        for i in 0..geo.len() {
            for j in i + 1..geo.len() {
                for k in j + 1..geo.len() {
                    for v1 in boundary(geo[i], get(&bi.boot, geo[i]), nt) {
                        for v2 in boundary(geo[j], get(&bi.boot, geo[j]), nt) {
                            for v3 in boundary(geo[k], get(&bi.boot, geo[k]), nt) {
                                let mut b = bi.boot.clone();
                                put(&mut b, geo[i], v1);
                                put(&mut b, geo[j], v2);
                                put(&mut b, geo[k], v3);
                                jobs.push((format!("{}+{}+{}={v1:#x},{v2:#x},{v3:#x}", geo[i].name, geo[j].name, geo[k].name), vec![(0, b)], None));
                            }
                        }
                    }
                }
            }
        }
        // (5) fs-info sector
        if let Some(fo) = bi.fsinfo_off {
            for (name, off) in [("fsinfo_lead_sig", 0usize), ("fsinfo_struc_sig", 484), ("fsinfo_trail_sig", 508), ("fsinfo_free_count", 488), ("fsinfo_next_free", 492)] {
                for v in b32(g.clusters) {
                    let mut s = bi.fsinfo.clone();
                    s[off..off + 4].copy_from_slice(&v.to_le_bytes());
                    jobs.push((format!("{name}={v:#x}"), vec![(fo, s)], None));
                }
            }
            for cut in [0u64, 1, 4, 484, 488, 492, 496, 508, 511] {
                jobs.push((format!("device_truncated_in_fsinfo={cut}"), vec![], Some(fo + cut)));
            }
        }
        // (6) coherent FAT32 geometries other than the base (clusters of several sectors, large cluster counts and FATs,
        // the largest cluster count), each with root-cluster values around ITS limits (also with reserved top bits set
        // and "off by the cluster size") and with the mirroring flags / active-copy numbers
        if g.layout32 {
            let bps = g.bps as u64;
            let fl32 = fields(true);
            let fld = |n: &str| *fl32.iter().find(|f| f.name == n).unwrap();
            for spc in [1u64, 2, 8, 64, 128] {
                for clusters in [65525u64, 65526, 1 << 20, (1 << 27) - 3, 1 << 27, 0x0FFF_FFF5] {
                    let spf = ((clusters + 2) * 4 + bps - 1) / bps;
                    let data = clusters * spc + (spc - 1);
                    let total = g.reserved as u64 + g.nfats as u64 * spf + data;
                    if total > u32::MAX as u64 {
                        continue;
                    }
                    let mut b0 = bi.boot.clone();
                    put(&mut b0, &fld("sectors_per_cluster"), spc as u32);
                    put(&mut b0, &fld("sectors_per_fat_32"), spf as u32);
                    put(&mut b0, &fld("total_sectors_32"), total as u32);
                    let tag = format!("geometry(spc={spc},clusters={clusters:#x})");
                    let mut rcs: Vec<u64> = vec![0, 1, 2, 3, clusters + 1, clusters + 2, clusters + 3, data + 1, data + 2, 0x1000_0002, 0xF000_0002, 0x8000_0000 + clusters + 1];
                    rcs.retain(|x| *x <= u32::MAX as u64);
                    for rc in rcs {
                        let mut b = b0.clone();
                        put(&mut b, &fld("root_cluster"), rc as u32);
                        jobs.push((format!("{tag}+root_cluster={rc:#x}"), vec![(0, b)], None));
                    }
                    for ef in [0u32, 0x01, 0x0F, 0x80, 0x81, 0x82, 0x8F] {
                        let mut b = b0.clone();
                        put(&mut b, &fld("extended_flags"), ef);
                        jobs.push((format!("{tag}+extended_flags={ef:#x}"), vec![(0, b)], None));
                    }
                }
            }
            // a FAT so large that (active copy number x FAT size) leaves the 32-bit range
            for (spc, spf, total) in [(64u32, 0x1111_1112u32, 0xFFFF_FFFFu32), (128, 0x0888_8889, 0xFFFF_FFFF), (1, 0x200, get(&bi.boot, &fld("total_sectors_32")))] {
                for ef in [0x80u32, 0x81, 0x82, 0x87, 0x8F] {
                    let mut b = bi.boot.clone();
                    put(&mut b, &fld("sectors_per_cluster"), spc);
                    put(&mut b, &fld("sectors_per_fat_32"), spf);
                    put(&mut b, &fld("total_sectors_32"), total);
                    put(&mut b, &fld("extended_flags"), ef);
                    jobs.push((format!("bigfat(spc={spc},spf={spf:#x})+extended_flags={ef:#x}"), vec![(0, b)], None));
                }
            }
            for rc in [0x1000_0002u32, 0x2000_0003, 0x8000_0002, 0xF000_0002] {
                let mut b = bi.boot.clone();
                put(&mut b, &fld("root_cluster"), rc);
                jobs.push((format!("root_cluster_reserved_bits={rc:#x}"), vec![(0, b)], None));
            }
        }
        {
            let bps = g.bps as u64;
            let dev_len = match &*bi.base { Base::Bytes(v) => v.len() as u64, _ => 0 };
            // (E1) fs-info sector number outside the reserved area, with a well-formed fs-info sector planted there
            if g.layout32 {
                let fl32 = fields(true);
                let fld = |n: &str| *fl32.iter().find(|f| f.name == n).unwrap();
                for v in [g.reserved as u64, g.reserved as u64 + 1, g.root_start_sec, g.data_start_sec, g.data_start_sec + 5, 0xFFFF] {
                    if v > 0xFFFF || (v + 1) * bps > dev_len {
                        continue;
                    }
                    let mut b = bi.boot.clone();
                    put(&mut b, &fld("fs_info_sector"), v as u32);
                    jobs.push((format!("planted_fsinfo_at_sector={v:#x}"), vec![(0, b), (v * bps, bi.fsinfo.clone())], None));
                }
            } else {
                // (E2) FAT12/16 layout with a FAT32 cluster count, boot sector doubling as a well-formed fs-info sector
                let fl16 = fields(false);
                let fld = |n: &str| *fl16.iter().find(|f| f.name == n).unwrap();
                for clusters in [65525u64, 65526, 1 << 20] {
                    for spc in [1u64, 8] {
                        let mut b = bi.boot.clone();
                        put(&mut b, &fld("sectors_per_cluster"), spc as u32);
                        put(&mut b, &fld("total_sectors_16"), 0);
                        put(&mut b, &fld("total_sectors_32"), (g.data_start_sec + clusters * spc) as u32);
                        b[0..4].copy_from_slice(&0x4161_5252u32.to_le_bytes());
                        b[484..488].copy_from_slice(&0x6141_7272u32.to_le_bytes());
                        b[488..496].copy_from_slice(&[0xFF; 8]);
                        b[508..510].copy_from_slice(&[0, 0]);
                        jobs.push((format!("boot_as_fsinfo(clusters={clusters:#x},spc={spc})"), vec![(0, b)], None));
                    }
                }
            }
            // (E3) the bytes of the boot sector that are not numeric fields: OEM name, FAT32 reserved block, labels
            let mut ranges: Vec<(usize, usize)> = vec![(1, 3), (3, 11)];
            if g.layout32 {
                ranges.extend([(52, 64), (71, 90)]);
            } else {
                ranges.extend([(43, 62)]);
            }
            for (lo, hi) in ranges {
                for off in lo..hi {
                    for v in 0..=255u8 {
                        let mut b = bi.boot.clone();
                        b[off] = v;
                        jobs.push((format!("boot_byte_{off}={v:#x}"), vec![(0, b)], None));
                    }
                }
            }
        }
        for cut in [0u64, 1, 11, 36, 90, 510, 511] {
            jobs.push((format!("device_truncated_in_boot={cut}"), vec![], Some(cut)));
        }
        if sample.len() < 4 {
            sample.push(json!({"base": bi.name, "mutation": jobs[jobs.len() / 3].0}));
        }
        let res: Vec<Vec<(String, String, String)>> = jobs
            .par_chunks(256)
            .map(|chunk| {
                let mut out = Vec::new();
                if Instant::now() > deadline {
                    return vec![("__capped".to_string(), String::new(), String::new())];
                }
                for (what, patches, trunc) in chunk {
                    for strict in [true, false] {
                        if let Some((sig, msg)) = attempt(bi, patches, *trunc, strict, &acc, what) {
                            out.push((sig, msg, what.split('=').next().unwrap_or("").to_string()));
                        }
                    }
                }
                out
            })
            .collect();
        for (sig, msg, field) in res.into_iter().flatten() {
            if sig == "__capped" {
                capped = true;
                continue;
            }
            *classes.entry(format!("{}:{}:violation", bi.name, field)).or_default() += 1;
            all.entry(sig).or_insert((msg, 0)).1 += 1;
        }
        *classes.entry(format!("{}:jobs", bi.name)).or_default() += jobs.len() as u64;
        eprintln!("[C07] {}: {} mutations x 2 strictness, {:.1}s elapsed", bi.name, jobs.len(), t0.elapsed().as_secs_f64());
        // sanity: the unmodified base must mount
        if let Some((sig, msg)) = attempt(bi, &[], None, true, &acc, "unmodified") {
            all.entry(format!("C07/machinery/base-does-not-mount/{sig}")).or_insert((msg, 0)).1 += 1;
        }
    }
    let mut rep = Report::new("C07", tier, "exploration");
    for (sig, (msg, n)) in all {
        let mut v = violation("C07", &sig, &msg, "mount-grid");
        v.count = n;
        rep.add(v, json!({"check": "C07", "case": msg}));
    }
    let accepted = acc.accepted.load(Ordering::Relaxed);
    let rejected = acc.rejected.load(Ordering::Relaxed);
    rep.coverage = json!({
        "evaluations": acc.evals.load(Ordering::Relaxed),
        "distinct_nontrivial": classes.len() as u64 + 2,
        "rule": "per base image (library-made FAT12/16/32, builder-made FAT32 mirror-off 4096-byte sectors, builder-made FAT16 with 3 FATs): every value of every 8/16-bit BPB field, boundary set B32 for 32-bit fields, all pairs of fields on boundary sets, all triples of the geometry fields (the sector-size field keeps all four legal sizes 512/1024/2048/4096 in every pair and triple set), fs-info signatures/count/hint on B32, device truncated inside boot / fs-info sector; each with strict and non-strict mount; distinct_nontrivial counts distinct (base, field group) classes plus the accepted/rejected split",
        "samples": sample,
        "exhaustive": !capped,
        "accepted_mounts": accepted,
        "rejected_mounts": rejected,
        "classes": classes,
        "technique": "bounded-exhaustive enumeration of boot-sector / fs-info contents on the real crate, judged by the independent geometry parser (coherence + equality of width / cluster size / cluster count)",
    });
    rep.assumptions = vec!["one-directional as stated: accepted implies coherent; coherent-but-rejected volumes are not flagged".into()];
    rep.wall_s = t0.elapsed().as_secs_f64();
    rep.finish()
}

#[allow(dead_code)]
fn _unused(_: MemDev) {}
