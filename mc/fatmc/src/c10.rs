//! C10 — FAT copies and reserved table bits are maintained exactly as the format requires.

use std::collections::HashMap;

use harness::builder::{Builder, MkSpec};
use harness::dev::DevState;
use harness::explore::Checker;
use harness::oracles::{self as o, FatBaseline};
use harness::sess::{Cfg, Exec, Op};
use harness::vol;

use crate::alpha;
use crate::common::{is_thorough, ExpSpec};

pub struct C10 {
    pub base: HashMap<String, FatBaseline>,
}

impl Checker for C10 {
    fn check(&self, cfg: &Cfg, ops: &[Op], ex: &Exec) -> Vec<(String, String)> {
        let Some(b) = self.base.get(&cfg.name) else { return vec![("C10/machinery/no-baseline".into(), cfg.name.clone())] };
        let mut v = o::o_fat_copies("C10", ops, ex, b);
        // volumes formatted by the library itself (with a non-default media byte): "keep" relative to the initial image
        // says nothing about an entry that was wrong from the start, so entry 0 is compared with the boot sector
        if cfg.name.starts_with("fmt") && ex.panic.is_none() && ex.completed {
            let st = ex.st.borrow();
            if let Ok(g) = harness::decoder::parse_raw(&st.read_vec(0, 512)) {
                let ones: u32 = match g.width {
                    12 => 0xF00,
                    16 => 0xFF00,
                    _ => 0x0FFF_FF00,
                };
                for c in 0..g.nfats {
                    let f = harness::decoder::FatView::new(&st, &g, c);
                    let e0 = f.raw(0) & 0x0FFF_FFFF;
                    if e0 != ones | g.media as u32 {
                        v.push((
                            "C10/reserved-entry-0-does-not-hold-the-media-descriptor".into(),
                            format!("copy {c}: entry 0 = {e0:#x}, media byte of the boot sector {:#04x}", g.media),
                        ));
                        break;
                    }
                    // (review 3) entry 1 of a library-formatted volume: an end-of-chain mark of the width (this
                    // includes the clean-shutdown / no-error bits of FAT16 / FAT32)
                    let e1 = f.raw(1) & 0x0FFF_FFFF;
                    let eoc_min: u32 = match g.width {
                        12 => 0xFF8,
                        16 => 0xFFF8,
                        _ => 0x0FFF_FFF8,
                    };
                    if e1 < eoc_min {
                        v.push((
                            "C10/reserved-entry-1-is-not-an-end-of-chain-mark".into(),
                            format!("copy {c}: entry 1 = {e1:#x}, end-of-chain marks of FAT{} start at {eoc_min:#x}", g.width),
                        ));
                        break;
                    }
                }
            }
        }
        // padding entries are never handed out / nothing links past the last cluster: decoder findings
        if let Some(Ok(d)) = &ex.post {
            for f in &d.findings {
                if f.msg.contains("out-of-range") {
                    v.push((format!("C10/chain-leaves-volume/{}", f.sig), f.msg.clone()));
                }
            }
        }
        v
    }
}

/// builder-made working volume: `nfree` free clusters including the very last one
pub fn mk(width: u8, nfats: u32, ext_flags: u16, nibble: u32, nfree: usize, name: &str) -> Cfg {
    let mut s = MkSpec::new(width);
    if name.ends_with("-hid") {
        // a volume that lives in a partition: the hidden-sectors field is one FAT long
        s.hidden = match width {
            12 => 1,
            16 => 16,
            _ => 512,
        };
    }
    s.nfats = nfats;
    s.ext_flags = ext_flags;
    s.nibble = nibble;
    let mut b = Builder::new(s);
    let last = b.geo.max_cluster();
    let first = if width == 32 { 3 } else { 2 };
    let mut keep: Vec<u32> = (first..first + nfree as u32 - 2).collect();
    keep.push(last - 1);
    keep.push(last);
    b.ballast(&keep);
    b.scribble_inactive();
    b.set_fsinfo(nfree as u32, 0xFFFF_FFFF);
    let mut cands = keep.clone();
    if width == 32 {
        cands.push(2);
    }
    let img = b.finish();
    vol::cfg_from(name, img, Some(cands))
}

/// other geometries: `spc` sectors per cluster, `slack` sectors behind the last cluster, `clusters` clusters; three free
/// clusters at the start and the last two
pub fn mk_geo(width: u8, spc: u32, slack: u32, clusters: u64, name: &str) -> Cfg {
    let mut s = MkSpec::new(width);
    s.spc = spc;
    s.slack_sectors = slack;
    s.clusters = clusters;
    let mut b = Builder::new(s);
    let last = b.geo.max_cluster();
    let first = if width == 32 { 3 } else { 2 };
    let keep: Vec<u32> = vec![first, first + 1, first + 2, last - 1, last];
    b.ballast(&keep);
    b.set_fsinfo(keep.len() as u32, 0xFFFF_FFFF);
    let mut cands = keep.clone();
    if width == 32 {
        cands.push(2);
    }
    vol::cfg_from(name, b.finish(), Some(cands))
}

/// volume with the largest cluster count of its FAT width (4084 / 65524): only the `nfree` highest-numbered clusters
/// are free, so every allocation hands out cluster numbers 0xFEE..=0xFF5 resp. 0xFFEE..=0xFFF5, just below the
/// reserved values of the width
pub fn mk_top(width: u8, nfree: u32, name: &str) -> Cfg {
    let mut s = MkSpec::new(width);
    s.clusters = if width == 12 { 4084 } else { 65524 };
    let mut b = Builder::new(s);
    let last = b.geo.max_cluster();
    let keep: Vec<u32> = (last + 1 - nfree..=last).collect();
    b.ballast(&keep);
    let img = b.finish();
    vol::cfg_from(name, img, Some(keep))
}

/// (review 3) fixed root directory that does not fill its last sector (`root_entries` not a multiple of 16)
pub fn mk_root(width: u8, root_entries: u32, name: &str) -> Cfg {
    let mut s = MkSpec::new(width);
    s.root_entries = root_entries;
    let mut b = Builder::new(s);
    let last = b.geo.max_cluster();
    let keep: Vec<u32> = vec![2, 3, 4, last - 1, last];
    b.ballast(&keep);
    vol::cfg_from(name, b.finish(), Some(keep))
}

/// (review 3) all free clusters are low-numbered and the last cluster is NOT free: once they are used up the allocation
/// hint stands above every free cluster, so the next allocation goes through the wrap-around scan [2, hint);
/// `hint` != 0: FAT32 fs-info "next free" value of the foreign image (hint above all free clusters from the start)
pub fn mk_lowfree(width: u8, hint: u32, name: &str) -> Cfg {
    let mut b = Builder::new(MkSpec::new(width));
    let first = if width == 32 { 3 } else { 2 };
    let keep: Vec<u32> = vec![first, first + 1, first + 2];
    b.ballast(&keep);
    b.set_fsinfo(keep.len() as u32, if hint == 0 { 0xFFFF_FFFF } else { hint });
    let mut cands = keep.clone();
    if width == 32 {
        cands.push(2);
    }
    vol::cfg_from(name, b.finish(), Some(cands))
}

pub fn configs(th: bool) -> Vec<Cfg> {
    let mut v = Vec::new();
    v.push(mk_lowfree(12, 0, "m12-lowfree"));
    v.push(mk_lowfree(16, 0, "m16-lowfree"));
    v.push(mk_lowfree(32, 0, "m32-lowfree"));
    v.push(mk_lowfree(32, 65526, "m32-lowfree-hint-top"));
    v.push(mk_root(12, 20, "m12-root20"));
    v.push(mk_root(16, 20, "m16-root20"));
    v.push(mk_top(12, 8, "m12-top"));
    v.push(mk_top(16, 8, "m16-top"));
    for width in [12u8, 16] {
        for nfats in 1..=3u32 {
            v.push(mk(width, nfats, 0, 0, 5, &format!("m{width}-{nfats}f")));
        }
    }
    for nfats in 1..=3u32 {
        v.push(mk(32, nfats, 0, 0, 5, &format!("m32-{nfats}f-mirror")));
        for active in 0..nfats {
            v.push(mk(32, nfats, 0x80 | active as u16, 0, 5, &format!("m32-{nfats}f-active{active}")));
        }
    }
    // mirroring enabled, stale non-zero active-copy number (meaningless while mirroring is on)
    v.push(mk(32, 2, 0x01, 0, 5, "m32-2f-mirror-stale1"));
    v.push(mk(32, 3, 0x02, 0, 5, "m32-3f-mirror-stale2"));
    // reserved top nibbles pre-set on every entry
    v.push(mk(32, 2, 0, 0xA, 5, "m32-2f-mirror-nibA"));
    v.push(mk(32, 2, 0x81, 0xA, 5, "m32-2f-active1-nibA"));
    // a different reserved nibble in every entry (all four bits occur; an update that takes the bits from a
    // neighbouring entry, or masks one bit too many, shows)
    v.push(mk(32, 2, 0, 0x10, 5, "m32-2f-mirror-nibvar"));
    // all four reserved bits set on every entry the explorer can touch
    v.push(mk(32, 2, 0, 0xF, 5, "m32-2f-mirror-nibF"));
    v.push(mk(12, 2, 0, 0, 5, "m12-2f-hid"));
    v.push(mk(16, 2, 0, 0, 5, "m16-2f-hid"));
    v.push(mk(32, 2, 0x80, 0, 5, "m32-2f-active0-hid"));
    // clusters of several sectors with slack sectors behind the last cluster; an odd FAT12 cluster count
    v.push(mk_geo(12, 4, 3, 40, "m12-spc4-slack3"));
    v.push(mk_geo(12, 1, 0, 41, "m12-41-clusters"));
    v.push(mk_geo(16, 2, 1, 4085, "m16-spc2-slack1"));
    v.push(mk_geo(32, 8, 7, 65525, "m32-spc8-slack7"));
    if th {
        v.push(mk(32, 3, 0x82, 0x5, 5, "m32-3f-active2-nib5"));
    }
    // volumes formatted by the library with each legal non-default media byte class (removable 0xF0, 0xF9, 0xFF); the
    // 0xF9 ones over a used medium (every byte 0xA5): a FAT copy that formatting did not initialise differs from the first
    for (ft, w) in [(fatfs::FatType::Fat12, 12), (fatfs::FatType::Fat16, 16), (fatfs::FatType::Fat32, 32)] {
        for media in [0xF0u8, 0xF9, 0xFF] {
            if !th && ((w == 16 && media != 0xF9) || (w == 12 && media != 0xFF)) {
                continue;
            }
            let mut spec = vol::tiny_spec(ft);
            if w == 12 {
                spec.clusters = Some(12);
            } else {
                spec.free = Some(5);
            }
            spec.name = format!("fmt{w}-media{media:02x}");
            let (img, cands) = vol::build_over(&spec, &|o| o.media(media), if media == 0xF9 { 0xA5 } else { 0 }).expect("formatted volume");
            v.push(vol::cfg_from(&spec.name, img, cands));
        }
    }
    // storage that cuts transfers at its own 7-byte block boundaries: the FAT copies start at different offsets
    // modulo 7, so a FAT word that is written in one piece in one copy is split in another
    for (width, nfats) in [(12u8, 2u32), (16, 2), (32, 2), (12, 3)] {
        let mut c = mk(width, nfats, 0, 0, 5, &format!("m{width}-{nfats}f-blk7"));
        c.short = harness::dev::Short::Block(7);
        v.push(c);
    }
    v
}

pub fn checker(cfgs: &[Cfg]) -> C10 {
    let mut base = HashMap::new();
    for c in cfgs {
        let st = DevState::new(c.base.clone());
        let cands = c.candidates.as_ref().map(|c| c.as_slice());
        if let Some(b) = o::fat_baseline(&st, cands) {
            base.insert(c.name.clone(), b);
        }
    }
    C10 { base }
}

pub fn specs(tier: &str) -> Vec<ExpSpec> {
    let th = is_thorough(tier);
    configs(th)
        .into_iter()
        .map(|c| {
            let d = if th {
                6
            } else if c.name.starts_with("m12") {
                4
            } else {
                3
            };
            let cs = {
                let st = DevState::new(c.base.clone());
                harness::decoder::parse_raw(&st.read_vec(0, 512)).map(|g| g.cluster_size() as u32).unwrap_or(512)
            };
            ExpSpec::new(c, alpha::mixed(cs), d)
        })
        .collect()
}
