//! C09 — storage errors surface as I/O errors: never swallowed, masked, a panic or a hang.
//! Fault enumeration: for every node of a shallow exploration, every k-th device call of the last
//! operation is failed in turn.

use std::sync::atomic::{AtomicU64, Ordering};
use std::sync::{Arc, Mutex};

use fatfs::FatType;
use harness::builder::{Builder, MkSpec};
use harness::dev::{new_dev, Base, Kind};
use harness::explore::{op_kind, Checker};
use harness::model::ErrKind;
use harness::sess::{self, Cfg, DirRef, Exec, Op, Out, Plan, SeekSpec};
use harness::vol;
use serde_json::json;

use crate::common::{is_thorough, ExpSpec};

pub const FAULT_ID_BASE: u32 = 0x00F0_0000;

#[derive(Default)]
pub struct Counters {
    pub fault_points: AtomicU64,
    pub fired: AtomicU64,
    pub fired_in_drop: AtomicU64,
    pub not_fired: AtomicU64,
    pub strided_ops: AtomicU64,
    pub outcomes: Mutex<std::collections::BTreeMap<String, u64>>,
    pub samples: Mutex<Vec<serde_json::Value>>,
}

pub struct C09 {
    pub ctr: Arc<Counters>,
}

fn judge(op: &Op, ex: &Exec, id: u32) -> Option<(String, String)> {
    let kind = op_kind(op);
    if let Some((i, msg)) = &ex.panic {
        return Some((format!("C09/panic/{kind}"), format!("panic at op {i} after injected fault: {msg}")));
    }
    if ex.budget_hit {
        return Some((format!("C09/no-termination/{kind}"), format!("device-call budget exceeded after the injected fault ({} calls)", ex.calls_last)));
    }
    let Some(f) = ex.fired else { return None };
    if f.in_drop {
        return None; // destructors cannot report errors
    }
    let fk = format!("{:?}", f.kind).to_lowercase();
    let res = ex.outs.last();
    let got = match res {
        Some(Err(ErrKind::Io(i))) if *i == id => return None,
        Some(Ok(Out::Progress { err: Some(ErrKind::Io(i)), .. })) if *i == id => return None,
        Some(Err(ErrKind::Io(i))) => format!("Io-with-other-id-{i:#x}"),
        Some(Err(e)) => e.name(),
        Some(Ok(Out::Progress { err: Some(e), .. })) => format!("partial-{}", e.name()),
        Some(Ok(_)) => "Ok".to_string(),
        None => "no-result".to_string(),
    };
    Some((
        format!("C09/fault-not-surfaced/{kind}/{fk}/got-{got}"),
        format!("device {fk} call #{} of {op:?} failed with id {id:#x} (not in a destructor) but the call returned {res:?}", f.call_no),
    ))
}

impl Checker for C09 {
    fn plan(&self) -> Plan {
        Plan { suffix: false, pre_decode: false, ..Default::default() }
    }

    fn check(&self, cfg: &Cfg, ops: &[Op], ex: &Exec) -> Vec<(String, String)> {
        let mut v = Vec::new();
        let Some(op) = ops.last() else { return v };
        if ex.panic.is_some() {
            return v;
        }
        let n = ex.calls_last;
        let mut seen = std::collections::BTreeSet::new();
        // an explicit unmount() exists to report errors: nothing may be left for the destructor of the file system to
        // write (errors there can only be logged). Handles that were still open have been dropped before the unmount
        // and before this operation's log window starts.
        if matches!(op, Op::Remount) {
            if let Some(r) = ex.log.iter().find(|r| r.kind == Kind::Write && r.in_drop) {
                v.push(("C09/unmount-leaves-writes-to-the-destructor".into(), format!("fault-free unmount(): write of {} bytes at offset {} issued from a destructor", r.len, r.off)));
            }
        }
        // every position; only for operations that issue more than 3000 device calls (whole-FAT scans:
        // long runs of identical sequential reads) the middle is visited at a stride of 61
        let ks: Vec<u64> = if n <= 3000 { (1..=n).collect() } else { (1..=n).filter(|k| *k <= 800 || *k + 800 > n || *k % 61 == 0).collect() };
        if n > 3000 {
            self.ctr.strided_ops.fetch_add(1, Ordering::Relaxed);
        }
        for k in ks {
            let id = FAULT_ID_BASE + k as u32;
            let plan = Plan { fault: Some((k, id)), budget: Some(50 * n + 2000), suffix: false, pre_decode: false, ..Default::default() };
            let fx = sess::run(cfg, ops, &plan);
            self.ctr.fault_points.fetch_add(1, Ordering::Relaxed);
            let tag = match fx.fired {
                Some(f) if f.in_drop => {
                    self.ctr.fired_in_drop.fetch_add(1, Ordering::Relaxed);
                    format!("{}:{:?}:in-destructor", op_kind(op), f.kind)
                }
                Some(f) => {
                    self.ctr.fired.fetch_add(1, Ordering::Relaxed);
                    format!("{}:{:?}:{}", op_kind(op), f.kind, match fx.outs.last() {
                        Some(Err(ErrKind::Io(_))) | Some(Ok(Out::Progress { err: Some(ErrKind::Io(_)), .. })) => "Io".to_string(),
                        Some(Err(e)) => e.name(),
                        Some(Ok(_)) => "Ok".into(),
                        None => "none".into(),
                    })
                }
                None => {
                    self.ctr.not_fired.fetch_add(1, Ordering::Relaxed);
                    format!("{}:not-reached", op_kind(op))
                }
            };
            *self.ctr.outcomes.lock().unwrap().entry(tag).or_default() += 1;
            if let Some((sig, msg)) = judge(op, &fx, id) {
                if seen.insert(sig.clone()) {
                    v.push((sig, format!("[fault at call {k}/{n}] {msg}")));
                }
            } else if k == 1 {
                let mut s = self.ctr.samples.lock().unwrap();
                if s.len() < 5 {
                    s.push(json!({"config": cfg.name, "history": ops.iter().map(|o| format!("{o:?}")).collect::<Vec<_>>(), "device_calls_of_last_op": n, "fault_positions": format!("1..={n}")}));
                }
            }
        }
        v
    }
}

pub fn prefix(cs: u32) -> Vec<Op> {
    let r = DirRef::Root;
    vec![
        Op::CreateFile { base: r, path: "f".into(), keep: Some(0) },
        Op::WriteAll { h: 0, len: 3 * cs },
        Op::Flush { h: 0 },
        Op::CreateDir { base: r, path: "d".into(), keep: None },
        Op::CreateFile { base: r, path: "d/x".into(), keep: Some(1) },
        Op::Write { h: 1, len: 1 },
        Op::CreateFile { base: r, path: "long-file-name.txt".into(), keep: None },
        // fill the first cluster of d completely (2 dot entries + x (2 slots) + 4 x 3 slots = 16 slots of 32 bytes):
        // the next entry created in d makes the directory grow by one (zero-filled) cluster
        Op::CreateFile { base: r, path: "d/filler-name-1.txt".into(), keep: None },
        Op::CreateFile { base: r, path: "d/filler-name-2.txt".into(), keep: None },
        Op::CreateFile { base: r, path: "d/filler-name-3.txt".into(), keep: None },
        Op::CreateFile { base: r, path: "d/filler-name-4.txt".into(), keep: None },
        // a directory that the explored part moves into d (the ancestor walk of rename reads d's "..")
        Op::CreateDir { base: r, path: "e0".into(), keep: None },
    ]
}

pub fn alphabet(cs: u32) -> Vec<Op> {
    let r = DirRef::Root;
    let s = |x: &str| x.to_string();
    vec![
        Op::Remount,
        Op::DropRemount,
        Op::List { base: r, path: s("") },
        Op::List { base: r, path: s("d") },
        Op::OpenDir { base: r, path: s("d"), keep: Some(0) },
        Op::OpenFile { base: r, path: s("long-file-name.txt"), keep: Some(2) },
        Op::OpenFile { base: r, path: s("d/x"), keep: None },
        Op::CreateFile { base: r, path: s("n"), keep: None },
        Op::CreateFile { base: r, path: s("another-long-name.txt"), keep: Some(2) },
        Op::CreateFile { base: r, path: s("d/y"), keep: None },
        Op::CreateDir { base: r, path: s("e"), keep: None },
        Op::CreateDir { base: r, path: s("d/e"), keep: None },
        Op::Remove { base: r, path: s("f") },
        Op::Remove { base: r, path: s("d/x") },
        Op::Remove { base: r, path: s("e") },
        Op::Remove { base: r, path: s("long-file-name.txt") },
        Op::Rename { base: r, src: s("f"), dst_base: r, dst: s("g") },
        Op::Rename { base: r, src: s("long-file-name.txt"), dst_base: r, dst: s("d/moved-long-name.txt") },
        Op::Rename { base: r, src: s("d"), dst_base: r, dst: s("q") },
        Op::Rename { base: r, src: s("e0"), dst_base: r, dst: s("d/e0") },
        // source path with a directory component: the traversal branch of Dir::rename
        Op::Rename { base: r, src: s("d/filler-name-1.txt"), dst_base: r, dst: s("moved-out.txt") },
        Op::Read { h: 0, len: cs + 1 },
        Op::ReadExact { h: 0, len: 2 * cs },
        Op::Write { h: 0, len: 1 },
        Op::Write { h: 1, len: cs + 1 },
        Op::WriteAll { h: 0, len: 2 * cs + 1 },
        Op::Seek { h: 0, pos: SeekSpec::Start(0) },
        Op::Seek { h: 0, pos: SeekSpec::Start(2 * cs as u64 + 1) },
        Op::Seek { h: 0, pos: SeekSpec::Current(-(cs as i64) - 1) },
        Op::Truncate { h: 0 },
        Op::Flush { h: 0 },
        Op::Flush { h: 1 },
        Op::Extents { h: 0 },
        Op::DropFile { h: 0 },
        Op::DropFile { h: 1 },
        Op::Stats,
        Op::StatusFlags,
        Op::Label,
    ]
}

/// builder-made volume whose only free clusters are the lowest ones (short allocation scans);
/// `hint_near_end`: FAT32 next-free hint points near the end, so the scan must fail there and wrap around
fn low_cfg(width: u8, hint_near_end: bool, name: &str) -> Cfg {
    let mut s = MkSpec::new(width);
    if width == 32 {
        s.reserved = 8;
    }
    let mut b = Builder::new(s);
    let last = b.geo.max_cluster();
    let first = if width == 32 { 3 } else { 2 };
    let keep: Vec<u32> = (first..first + 12).collect();
    b.ballast(&keep);
    b.set_fsinfo(keep.len() as u32, if hint_near_end { last - 1 } else { 0xFFFF_FFFF });
    let mut cands = keep.clone();
    if width == 32 {
        cands.push(2);
    }
    vol::cfg_from(name, b.finish(), Some(cands))
}

pub fn specs(tier: &str) -> Vec<ExpSpec> {
    let th = is_thorough(tier);
    let mut v = Vec::new();
    let mut cfgs = vec![vol::tiny_with(FatType::Fat12, 12, 16), low_cfg(16, false, "b16-low"), low_cfg(32, false, "b32-low")];
    if th {
        // (after the prefix's first allocation the hint is back at the start: in the quick tier the wrapping scan is
        // covered by b32-low-hint-near-end-fresh below)
        cfgs.push(low_cfg(32, true, "b32-low-hint-near-end"));
    }
    for cfg in cfgs {
        // (quick tier: FAT16 shares everything but its table routines with FAT12 - one call after the prefix there)
        let d = if th { 3 } else if cfg.name == "b16-low" { 1 } else { 2 };
        v.push(ExpSpec::new(cfg, alphabet(512), d).with_prefix(prefix(512)));
    }
    let r = DirRef::Root;
    // the allocation scan of the FAULTED call wraps around: the session's first allocation with the hint near the end
    // (first scan fails at the end of the table, the second one starts at cluster 2 and succeeds)
    {
        let mut c = low_cfg(32, true, "b32-low-hint-near-end-fresh");
        c.name = "b32-low-hint-near-end-fresh".into();
        let prefix = vec![Op::CreateFile { base: r, path: "f".into(), keep: Some(0) }, Op::CreateFile { base: r, path: "d-x".into(), keep: Some(1) }];
        v.push(ExpSpec::new(c, alphabet(512), if th { 2 } else { 1 }).with_prefix(prefix));
    }
    // completely full volumes with the running hint above cluster 2: both scans of a faulted allocation run and fail
    for w in [16u8, 32] {
        let c = full_cfg(w, &format!("b{w}-full"));
        let prefix = vec![Op::CreateFile { base: r, path: "f".into(), keep: Some(0) }, Op::WriteAll { h: 0, len: 3 * 512 }, Op::CreateFile { base: r, path: "d-x".into(), keep: Some(1) }];
        v.push(ExpSpec::new(c, alphabet(512), if th { 2 } else { 1 }).with_prefix(prefix));
    }
    // a directory whose only cluster is full, on a volume without a free cluster: creating an entry in it has to grow the
    // directory, fails with NotEnoughSpace and gives back what it took - device calls on clean-up paths; the same in
    // a full fixed root (create_dir allocates the new directory's cluster first and has to release it)
    {
        let mut c = vol::tiny_with(FatType::Fat12, 12, 16);
        c.name = "t12-full-dir-full-volume".into();
        let mut pfx = vec![Op::CreateDir { base: r, path: "d".into(), keep: None }, Op::CreateFile { base: r, path: "d/x".into(), keep: None }];
        for i in 1..=4 {
            pfx.push(Op::CreateFile { base: r, path: format!("d/filler-name-{i}.txt"), keep: None });
        }
        pfx.push(Op::CreateFile { base: r, path: "f".into(), keep: Some(0) });
        pfx.push(Op::Fill { h: 0, max: 64 });
        let alpha = vec![
            Op::CreateFile { base: r, path: "d/y".into(), keep: None },
            Op::CreateDir { base: r, path: "d/e".into(), keep: None },
            Op::Rename { base: r, src: "f".into(), dst_base: r, dst: "d/moved-long-name.txt".into() },
        ];
        v.push(ExpSpec::new(c, alpha, 1).with_prefix(pfx));
        // a directory of two completely full clusters on a volume with ONE free cluster; a 200-character name needs two
        // more clusters: the first is taken, the second is not there, the growth is undone by seeking back to the old
        // end of the directory (a FAT walk: device calls on a clean-up path of a call that already fails for lack of space)
        let mut c = vol::tiny_low(FatType::Fat12, 3, 16);
        c.name = "t12-full-2cluster-dir-one-free".into();
        let mut pfx = vec![Op::CreateDir { base: r, path: "d".into(), keep: None }, Op::CreateFile { base: r, path: "f".into(), keep: None }];
        for i in 1..=15 {
            pfx.push(Op::CreateFile { base: r, path: format!("d/long-n-{i:02}.txt"), keep: None });
        }
        let alpha = vec![
            Op::CreateFile { base: r, path: format!("d/{}", "n".repeat(200)), keep: None },
            Op::CreateDir { base: r, path: format!("d/{}", "k".repeat(200)), keep: None },
            Op::Rename { base: r, src: "f".into(), dst_base: r, dst: format!("d/{}", "r".repeat(200)) },
            // existing entries that live in the SECOND cluster of the directory (the seek of
            // remove / rename to the entry set walks the FAT), and a growth of the full two-cluster directory that
            // succeeds (the seek back to the first new slot walks the FAT)
            Op::Remove { base: r, path: "d/long-n-15.txt".into() },
            Op::Rename { base: r, src: "d/long-n-14.txt".into(), dst_base: r, dst: "out.txt".into() },
            Op::Rename { base: r, src: "d/long-n-13.txt".into(), dst_base: r, dst: "d/long-n-99.txt".into() },
            Op::OpenFile { base: r, path: "d/long-n-15.txt".into(), keep: None },
            Op::CreateFile { base: r, path: "d/y".into(), keep: None },
            Op::CreateDir { base: r, path: "d/e".into(), keep: None },
            Op::List { base: r, path: "d".into() },
        ];
        v.push(ExpSpec::new(c, alpha, 1).with_prefix(pfx));
        // file handles on a volume whose status byte is still clean in memory (remount, then open):
        // the first change of the session comes from a call on the handle (write / truncate raise the flag themselves)
        for ft in [FatType::Fat12, FatType::Fat32] {
            let mut c = vol::tiny_with(ft, 12, 16);
            c.name = format!("{}-clean-volume-open-handle", if ft == FatType::Fat12 { "t12" } else { "t32" });
            let pfx = vec![
                Op::CreateFile { base: r, path: "f".into(), keep: Some(0) },
                Op::WriteAll { h: 0, len: 3 * 512 },
                Op::Remount,
                Op::OpenFile { base: r, path: "f".into(), keep: Some(0) },
                Op::Seek { h: 0, pos: SeekSpec::Start(512 + 1) },
            ];
            let alpha = vec![
                Op::Truncate { h: 0 },
                Op::Write { h: 0, len: 1 },
                Op::WriteAll { h: 0, len: 2 * 512 + 1 },
                Op::Read { h: 0, len: 512 + 1 },
                Op::Flush { h: 0 },
                Op::Seek { h: 0, pos: SeekSpec::Start(0) },
            ];
            v.push(ExpSpec::new(c, alpha, 2).with_prefix(pfx));
        }
        // full 16-slot root, free clusters left
        let mut c = vol::tiny_with(FatType::Fat12, 12, 16);
        c.name = "t12-full-root".into();
        let mut pfx = Vec::new();
        for i in 1..=5 {
            pfx.push(Op::CreateFile { base: r, path: format!("root-filler-{i}.txt"), keep: None });
        }
        pfx.push(Op::CreateFile { base: r, path: "z".into(), keep: None });
        let alpha = vec![
            Op::CreateDir { base: r, path: "new-directory".into(), keep: None },
            Op::CreateFile { base: r, path: "new-file-name.txt".into(), keep: None },
            Op::CreateDir { base: r, path: "e".into(), keep: None },
        ];
        v.push(ExpSpec::new(c, alpha, 1).with_prefix(pfx));
    }
    // FAT32 whose free count is unknown: stats() recounts the whole table (fault positions strided)
    {
        let mut c = low_cfg(32, false, "b32-low-nocount");
        if let Base::Bytes(img) = &*c.base {
            let mut img = img.clone();
            vol::set_fsinfo(&mut img, Some(0xFFFF_FFFF), None);
            c.base = Arc::new(Base::Bytes(img));
        }
        v.push(ExpSpec::new(c, vec![Op::Stats, Op::CreateFile { base: r, path: "n".into(), keep: None }, Op::Remount], 1));
    }
    v
}

/// builder-made volume with exactly three free clusters (the lowest ones)
fn full_cfg(width: u8, name: &str) -> Cfg {
    let mut s = MkSpec::new(width);
    if width == 32 {
        s.reserved = 8;
    }
    let mut b = Builder::new(s);
    let first = if width == 32 { 3 } else { 2 };
    let keep: Vec<u32> = (first..first + 3).collect();
    b.ballast(&keep);
    b.set_fsinfo(keep.len() as u32, 0xFFFF_FFFF);
    let mut cands = keep.clone();
    if width == 32 {
        cands.push(2);
    }
    vol::cfg_from(name, b.finish(), Some(cands))
}

/// format_volume under fault enumeration (not a session operation): returns violations
pub fn format_faults(ctr: &Counters) -> Vec<(String, String, String)> {
    let mut out = Vec::new();
    type Mk = Box<dyn Fn() -> fatfs::FormatVolumeOptions>;
    let mut cases: Vec<(String, usize, Mk)> = Vec::new();
    for (name, total, ft) in [("fmt12", 64u32, FatType::Fat12), ("fmt16", 4300, FatType::Fat16), ("fmt32", 70000, FatType::Fat32)] {
        cases.push((name.into(), total as usize * 512, Box::new(move || fatfs::FormatVolumeOptions::new().fat_type(ft).bytes_per_cluster(512).total_sectors(total))));
    }
    // option-dependent I/O paths: size taken from the storage, a volume label entry, sectors larger than 512 bytes
    // (zero-filling to the end of the boot / information sectors), a single FAT copy
    cases.push(("fmt12-size-from-storage".into(), 64 * 512 + 100, Box::new(|| fatfs::FormatVolumeOptions::new())));
    cases.push(("fmt16-label".into(), 4300 * 512, Box::new(|| fatfs::FormatVolumeOptions::new().fat_type(FatType::Fat16).bytes_per_cluster(512).total_sectors(4300).volume_label(*b"DATA LABEL ").volume_id(7))));
    cases.push(("fmt12-4096".into(), 64 * 4096, Box::new(|| fatfs::FormatVolumeOptions::new().bytes_per_sector(4096).bytes_per_cluster(4096).total_sectors(64).fats(1))));
    cases.push(("fmt32-label-size-from-storage".into(), 70000 * 512, Box::new(|| fatfs::FormatVolumeOptions::new().fat_type(FatType::Fat32).bytes_per_cluster(512).volume_label(*b"DATA LABEL "))));
    for (name, len, mk) in cases {
        let name = name.as_str();
        let base = Arc::new(Base::Bytes(vec![0u8; len]));
        let (st, mut dev) = new_dev(&base);
        st.borrow_mut().arm(None, None);
        if fatfs::format_volume(&mut dev, mk()).is_err() {
            out.push((format!("C09/machinery/format-{name}"), "fault-free format failed".into(), name.to_string()));
            continue;
        }
        let n = st.borrow().calls;
        // every call for small volumes; for the FAT32 one the long zero-filling runs are sampled at a stride
        let ks: Vec<u64> = if n <= 3000 { (1..=n).collect() } else { (1..=n).filter(|k| *k <= 600 || *k + 600 > n || *k % 97 == 0).collect() };
        for k in ks {
            let id = FAULT_ID_BASE + 0x8000 + (k as u32 & 0x7FFF);
            let (st, mut dev) = new_dev(&base);
            st.borrow_mut().arm(Some((k, id)), Some(50 * n + 1000));
            let r = sess::guarded(|| fatfs::format_volume(&mut dev, mk()).map_err(sess::ek));
            ctr.fault_points.fetch_add(1, Ordering::Relaxed);
            let fired = st.borrow().fired;
            let verdict = match (&r, fired) {
                (Err(p), _) => Some(("panic".to_string(), p.clone())),
                (_, None) => {
                    ctr.not_fired.fetch_add(1, Ordering::Relaxed);
                    None
                }
                (Ok(Err(ErrKind::Io(i))), Some(_)) if *i == id => {
                    ctr.fired.fetch_add(1, Ordering::Relaxed);
                    None
                }
                (Ok(other), Some(f)) => Some((format!("{:?}/got-{}", f.kind, match other { Ok(()) => "Ok".to_string(), Err(e) => e.name() }).to_lowercase(), format!("call {k}/{n}: {other:?}"))),
            };
            let tag = format!("format_volume:{}", match (&r, fired) { (_, None) => "not-reached".to_string(), (Ok(Err(ErrKind::Io(_))), Some(f)) => format!("{:?}:Io", f.kind), (Ok(x), Some(f)) => format!("{:?}:{x:?}", f.kind), (Err(_), _) => "panic".into() });
            *ctr.outcomes.lock().unwrap().entry(tag).or_default() += 1;
            if st.borrow().budget_hit {
                out.push(("C09/no-termination/format_volume".into(), format!("{name}: budget exceeded with fault at call {k}"), name.to_string()));
            }
            if let Some((what, msg)) = verdict {
                out.push((format!("C09/fault-not-surfaced/format_volume/{what}"), format!("{name}: {msg}"), name.to_string()));
            }
        }
        let _ = Kind::Read;
    }
    out.sort();
    out.dedup_by(|a, b| a.0 == b.0);
    out
}
