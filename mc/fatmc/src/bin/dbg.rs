use harness::dev::Short;
use harness::sess::{self, DirRef, Op, Plan};
use harness::vol;
fn main() {
    let mut cfg = vol::tiny_with(fatfs::FatType::Fat12, 8, 16);
    cfg.short = Short::Always;
    let ops = vec![
        Op::CreateFile { base: DirRef::Root, path: "f".into(), keep: Some(0) },
        Op::Write { h: 0, len: 700 },
    ];
    let ex = sess::run(&cfg, &ops, &Plan { log_all: true, ..Default::default() });
    println!("outs {:?} panic {:?}", ex.outs, ex.panic);
    for r in &ex.log { if r.kind == harness::dev::Kind::Write { println!("W off {} len {} op {}", r.off, r.len, r.op_idx); } }
    println!("post {:?}", ex.post.as_ref().map(|r| r.as_ref().map(|d| d.findings.clone())));
    println!("flushed {:?}", ex.suffix.flushed.as_ref().map(|r| r.as_ref().map(|d| (d.findings.clone(), d.flat().keys().cloned().collect::<Vec<_>>()))));
}
