//! C05 — free-space accounting is exact and space is fully reclaimed.

use std::sync::Arc;

use fatfs::FatType;
use harness::dev::{Base, DevState};
use harness::explore::Checker;
use harness::oracles as o;
use harness::sess::{self, Cfg, DirRef, Exec, Op, SeekSpec};
use harness::vol;

use crate::common::{is_thorough, ExpSpec};

pub struct C05;

impl Checker for C05 {
    fn check(&self, cfg: &Cfg, ops: &[Op], ex: &Exec) -> Vec<(String, String)> {
        let mut v = o::o_result("C05", ops, ex);
        // only the space-related part of the result oracle belongs to this property
        v.retain(|(sig, _)| sig.contains("NotEnoughSpace") || sig.contains("partial-"));
        // clean FAT32 volumes whose stored (advisory) free count is wrong: what stats() reports there is the stored
        // value until the library recounts, so only the out-of-space clause is judged on them
        let stale_count = cfg.name.contains("-fsi-count");
        if !stale_count {
            v.extend(o::o_free_space("C05", ops, ex));
        }
        // a transient storage fault while the volume is being unmounted (explicitly, or implicitly by dropping it): the next session must still report
        // the number of free entries of the FAT (the library may have failed to store the count, but then it must
        // not trust it)
        if !stale_count && matches!(ops.last(), Some(Op::Remount | Op::DropRemount)) && ex.panic.is_none() && v.is_empty() && ex.calls_last <= 3000 {
            for k in 1..=ex.calls_last {
                let plan = harness::sess::Plan { fault: Some((k, 0x00F5_0000 + k as u32)), ..Default::default() };
                let fx = sess::run(cfg, ops, &plan);
                if fx.panic.is_some() || !fx.completed || !fx.mount_failures.is_empty() {
                    continue;
                }
                if let (Some(Ok(post)), Some(Ok(f))) = (&fx.post, &fx.suffix.stats_free) {
                    if *f as u64 != post.free {
                        v.push((
                            "C05/after-faulted-unmount/stats-free-count".into(),
                            format!("device call {k} of the unmount/remount failed once; the next session's stats() says {f} free, the FAT has {}", post.free),
                        ));
                        break;
                    }
                }
            }
        }
        // delete-all: capacity is back to the initial one
        if ex.completed && ex.panic.is_none() && ex.model.nodes.len() == 1 && ex.model.fh.iter().all(Option::is_none) {
            if let Some(Ok(post)) = &ex.post {
                let st = DevState::new(cfg.base.clone());
                if let Ok(d0) = sess::decode_dev(&st, cfg, &[]) {
                    // (a cluster-chained root directory that had to grow keeps its clusters: that is not lost capacity)
                    let root_growth = post.dirs.first().map_or(0, |d| d.chain.len()) as u64 - d0.dirs.first().map_or(0, |d| d.chain.len()) as u64;
                    if d0.free != post.free + root_growth {
                        v.push((
                            "C05/delete-all/capacity-shrunk".into(),
                            format!("tree is empty again but free clusters {} != initial {}", post.free, d0.free),
                        ));
                    }
                }
            }
        }
        v
    }
}

pub fn alphabet(cs: u32) -> Vec<Op> {
    let r = DirRef::Root;
    let s = |x: &str| x.to_string();
    vec![
        Op::CreateFile { base: r, path: s("f"), keep: Some(0) },
        Op::CreateFile { base: r, path: s("g"), keep: Some(1) },
        Op::Fill { h: 0, max: 16 },
        Op::Fill { h: 1, max: 16 },
        Op::Write { h: 0, len: cs },
        Op::Write { h: 1, len: 1 },
        Op::CreateDir { base: r, path: s("d"), keep: None },
        Op::CreateFile { base: r, path: s("d/x"), keep: None },
        Op::CreateFile { base: r, path: "m".repeat(100), keep: None },
        Op::Remove { base: r, path: s("f") },
        Op::Remove { base: r, path: s("g") },
        Op::Remove { base: r, path: s("d/x") },
        Op::Remove { base: r, path: s("d") },
        Op::Remove { base: r, path: "m".repeat(100) },
        Op::Seek { h: 0, pos: SeekSpec::Start(0) },
        Op::Seek { h: 0, pos: SeekSpec::Start(cs as u64 + 1) },
        Op::Truncate { h: 0 },
        Op::Truncate { h: 1 },
        Op::DropFile { h: 0 },
        Op::DropFile { h: 1 },
        Op::Stats,
        Op::Remount,
        // implicit unmount: the file system object is simply dropped
        Op::DropRemount,
    ]
}

fn patched(cfg: &Cfg, name: &str, free: Option<u32>, next: Option<u32>) -> Cfg {
    let Base::Bytes(img) = &*cfg.base else { unreachable!() };
    let mut img = img.clone();
    vol::set_fsinfo(&mut img, free, next);
    let mut c = cfg.clone();
    c.base = Arc::new(Base::Bytes(img));
    c.name = format!("{}-{}", cfg.name, name);
    c
}

pub fn specs(tier: &str) -> Vec<ExpSpec> {
    let th = is_thorough(tier);
    let mut v = Vec::new();
    for ft in [FatType::Fat12, FatType::Fat16, FatType::Fat32] {
        let cfg = vol::tiny_with(ft, 7, 16);
        // (FAT32 in the quick tier: one level less here, its seven information-sector variants below run at depth 3-4)
        v.push(ExpSpec::new(cfg.clone(), alphabet(512), if th { 8 } else if ft == FatType::Fat32 { 4 } else { 5 }));
        // full volume whose next-free hint sits in the middle, just above the cluster that the explored history
        // frees first: the allocation scan has to fail at the end and wrap around to the clusters below the hint
        let mut c2 = cfg.clone();
        c2.name = format!("{}-holes", c2.name);
        let r = DirRef::Root;
        let prefix = vec![
            Op::CreateFile { base: r, path: "f".into(), keep: Some(0) },
            Op::Write { h: 0, len: 512 },
            Op::CreateFile { base: r, path: "g".into(), keep: Some(1) },
            Op::Write { h: 1, len: 1 },
            Op::CreateFile { base: r, path: "h".into(), keep: Some(2) },
            Op::Fill { h: 2, max: 16 },
            Op::DropFile { h: 1 },
            Op::Remove { base: r, path: "g".into() },
            Op::CreateFile { base: r, path: "g".into(), keep: Some(1) },
            Op::Write { h: 1, len: 1 },
        ];
        v.push(ExpSpec::new(c2, alphabet(512), if th { 6 } else { 4 }).with_prefix(prefix));
        if ft == FatType::Fat32 {
            let g = {
                let st = DevState::new(cfg.base.clone());
                harness::decoder::parse_raw(&st.read_vec(0, 512)).unwrap()
            };
            let last = g.max_cluster();
            let first_free = cfg.candidates.as_ref().map(|c| c[0]).unwrap_or(3);
            let variants: Vec<(&str, Option<u32>, Option<u32>)> = vec![
                ("nofree", Some(0xFFFF_FFFF), None),
                ("toolarge", Some(last + 100), None),
                ("hint-none", None, Some(0xFFFF_FFFF)),
                ("hint-first", None, Some(first_free)),
                ("hint-last", None, Some(last)),
                ("hint-last+1", None, Some(last + 1)),
                ("hint-last+2", None, Some(last + 2)),
            ];
            for (n, f, h) in variants {
                // (unknown / impossible counts make every statistics call recount the whole table: one level less)
                let d = if th { 6 } else if f.is_some() { 3 } else { 4 };
                v.push(ExpSpec::new(patched(&cfg, n, f, h), alphabet(512), d));
            }
            // marked dirty (the previous session was not unmounted) with an in-range but wrong count in the
            // information sector: the count must not be trusted
            {
                let mut c = patched(&cfg, "dirty-wrongcount", Some(5), None);
                let Base::Bytes(img) = &*c.base else { unreachable!() };
                let mut img = img.clone();
                vol::set_status(&mut img, 1);
                c.base = Arc::new(Base::Bytes(img));
                v.push(ExpSpec::new(c, alphabet(512), if th { 5 } else { 3 }));
            }
        }
    }
    // clean FAT32 volumes (cleanly unmounted by someone else) whose stored free count is wrong: too low (0, 1) or too
    // high. The count is advisory: out-of-space may be reported only when the table has no free entry
    for (tag, cnt) in [("fsi-count0", 0u32), ("fsi-count1", 1), ("fsi-count-high", 60_000)] {
        let mut spec = vol::tiny_spec(FatType::Fat32);
        spec.free = Some(7);
        spec.name = format!("t32-f7-{tag}");
        let (mut img, cands) = vol::build(&spec).expect("fs-info volume");
        vol::set_fsinfo(&mut img, Some(cnt), None);
        v.push(ExpSpec::new(vol::cfg_from(&spec.name, img, cands), alphabet(512), if th { 5 } else { 3 }));
    }
    // volumes made by the independent builder (a foreign formatter): FAT padding entries are zero, so a scan that
    // runs one entry too far finds a "free" cluster behind the last one; four free clusters, the last one included
    for w in [12u8, 16, 32] {
        let c = crate::c10::mk(w, 2, 0, 0, 4, &format!("m{w}-zeropad-f4"));
        v.push(ExpSpec::new(c, alphabet(512), if th { 5 } else { 4 }));
    }
    // fixed root of 11 slots that one 9-slot and one 2-slot name fill exactly; information-sector counts just above the
    // number of clusters; a cluster-chained root that has to grow and can
    {
        let r = DirRef::Root;
        // (E1) fixed root of 11 slots: m x 100 (9 slots) + f (2 slots) fill it exactly
        for ft in [FatType::Fat12, FatType::Fat16] {
            let mut c = vol::tiny_with(ft, 7, 11);
            c.name = format!("{}-exactfit", c.name);
            v.push(ExpSpec::new(c, alphabet(512), 3));
        }
        // (E2) information-sector count one above the number of clusters (= the last valid cluster NUMBER)
        {
            let cfg = vol::tiny_with(FatType::Fat32, 7, 16);
            let g = {
                let st = DevState::new(cfg.base.clone());
                harness::decoder::parse_raw(&st.read_vec(0, 512)).unwrap()
            };
            v.push(ExpSpec::new(patched(&cfg, "count-total+1", Some(g.max_cluster()), None), alphabet(512), 2));
            v.push(ExpSpec::new(patched(&cfg, "count-total+2", Some(g.max_cluster() + 1), None), alphabet(512), 2));
        }
        // (E3) cluster-chained directory that has to grow and can: root filled to 15 of 16 slots by the prefix,
        // two free clusters (one for the new directory, one for the root)
        {
            let mut c = vol::tiny_low(FatType::Fat32, 2, 16);
            c.name = format!("{}-rootgrow", c.name);
            let prefix = vec![
                Op::CreateFile { base: r, path: "h".into(), keep: None },
                Op::CreateFile { base: r, path: "m".repeat(100), keep: None },
                Op::CreateFile { base: r, path: "f".into(), keep: None },
                Op::CreateFile { base: r, path: "g".into(), keep: None },
            ];
            v.push(ExpSpec::new(c, alphabet(512), 3).with_prefix(prefix));
        }
        // cluster-chained directory that an entry set fills EXACTLY to the end of its last cluster, on a volume without a
        // free cluster: 2 + 9 + 2 slots by the prefix, a 14-character name (3 slots) ends at slot 16
        {
            let mut c = vol::tiny_low(FatType::Fat32, 0, 16);
            c.name = format!("{}-rootexact", c.name);
            let prefix = vec![
                Op::CreateFile { base: r, path: "h".into(), keep: None },
                Op::CreateFile { base: r, path: "m".repeat(100), keep: None },
                Op::CreateFile { base: r, path: "f".into(), keep: None },
            ];
            let mut a = alphabet(512);
            a.push(Op::CreateFile { base: r, path: "n".repeat(14), keep: None });
            a.push(Op::Remove { base: r, path: "n".repeat(14) });
            a.push(Op::CreateDir { base: r, path: "e".repeat(14), keep: None });
            v.push(ExpSpec::new(c, a, 2).with_prefix(prefix));
        }
    }
    // FAT32 whose entries all carry reserved top bits (0xA), free count unknown: the recount has to mask them
    {
        let c = crate::c10::mk(32, 2, 0, 0xA, 7, "m32-nibA");
        v.push(ExpSpec::new(patched(&c, "nofree", Some(0xFFFF_FFFF), None), alphabet(512), if th { 4 } else { 3 }));
    }
    v
}
