//! C01 — directory-tree operations behave like a case-insensitive in-memory tree.

use fatfs::FatType;
use harness::explore::Checker;
use harness::oracles as o;
use harness::sess::{Cfg, DirRef, Exec, Op};
use harness::vol;

use crate::common::{is_thorough, ExpSpec};

pub struct C01;

impl Checker for C01 {
    fn check(&self, _cfg: &Cfg, ops: &[Op], ex: &Exec) -> Vec<(String, String)> {
        let mut v = o::o_result("C01", ops, ex);
        if !v.is_empty() {
            // a wrong result already desynchronises the model: report the root cause only
            return v;
        }
        v.extend(o::o_tree_boundary("C01", ops, ex));
        v.extend(o::o_tree_suffix("C01", ex, false));
        v
    }
}

pub fn long256() -> String {
    "n".repeat(256)
}

pub fn alphabet(cs: u32) -> Vec<Op> {
    let r = DirRef::Root;
    let s = |x: &str| x.to_string();
    let mut a = Vec::new();
    for p in ["a", "A", "b.txt", "long-name-1.txt", "long-name-2.txt", "x:y", "d/a", "d/e/a", "a/x", "nodir/x", "d"] {
        a.push(Op::CreateFile { base: r, path: s(p), keep: None });
    }
    a.push(Op::CreateFile { base: r, path: long256(), keep: None });
    // a name that has another alphabet name ("a") as a proper prefix: lookups must not match on a common prefix
    a.push(Op::CreateFile { base: r, path: s("a2"), keep: None });
    // 100 units: 8 long-name slots + 1 -> fills a 16-slot root quickly
    a.push(Op::CreateFile { base: r, path: "m".repeat(100), keep: None });
    a.push(Op::CreateDir { base: r, path: "k".repeat(100), keep: None });
    for p in ["d", "D", "d/e", "e", "a", "x:y", "nodir/e", "long-name-1.txt/z"] {
        a.push(Op::CreateDir { base: r, path: s(p), keep: None });
    }
    // ("LONG-NAME-1.TXT": a long name that does not fit 8.3 looked up in another case - only the long-name
    // comparison can answer)
    for p in ["a", "A", "LONG-N~1.TXT", "long-n~2.txt", "LONG-NAME-1.TXT", "d/a", "d", "zz"] {
        a.push(Op::OpenFile { base: r, path: s(p), keep: None });
    }
    for p in ["", "d", "D/E", "a"] {
        a.push(Op::List { base: r, path: s(p) });
    }
    for p in ["a", "b.txt", "long-name-1.txt", "Long-Name-2.txt", "d", "d/e", "d/a", "zz", "D"] {
        a.push(Op::Remove { base: r, path: s(p) });
    }
    for (p, q) in [
        ("a", "b.txt"),
        ("a", "A"),
        ("a", "c"),
        ("a", "x:y"),
        ("a", "d/a"),
        ("d", "q"),
        ("d", "d/e/loop"),
        ("d", "d/loop"),
        ("long-name-1.txt", "long-name-2.txt"),
        ("long-name-1.txt", "LONG-N~1.TXT"),
        ("long-name-1.txt", "LONG-NAME-1.TXT"),
        // destination exists and lies inside the moved directory
        ("d", "d/e"),
        ("zz", "c"),
        ("a", "nodir/c"),
        ("d/a", "a"),
        ("d/e", "e"),
        ("e", "d/e"),
        ("d", "e/d"),
        ("b.txt", "d/e/b.txt"),
    ] {
        a.push(Op::Rename { base: r, src: s(p), dst_base: r, dst: s(q) });
    }
    a.push(Op::Rename { base: r, src: s("a"), dst_base: r, dst: long256() });
    // destination inside the moved directory AND an invalid last component (both error kinds apply)
    a.push(Op::Rename { base: r, src: s("d"), dst_base: r, dst: s("d/x:y") });
    // handles: a file handle that writes (other entries are then moved around it), a dir handle as base
    a.push(Op::CreateFile { base: r, path: s("a"), keep: Some(0) });
    a.push(Op::CreateFile { base: r, path: s("d/a"), keep: Some(1) });
    a.push(Op::Write { h: 0, len: cs + 1 });
    a.push(Op::Write { h: 1, len: cs + 1 });
    a.push(Op::WriteAll { h: 0, len: 4 * cs });
    a.push(Op::WriteAll { h: 1, len: 4 * cs });
    a.push(Op::DropFile { h: 0 });
    a.push(Op::DropFile { h: 1 });
    a.push(Op::OpenDir { base: r, path: s("d"), keep: Some(0) });
    a.push(Op::DropDir { d: 0 });
    a.push(Op::CreateFile { base: DirRef::H(0), path: s("r"), keep: None });
    a.push(Op::CreateDir { base: DirRef::H(0), path: s("e"), keep: None });
    a.push(Op::Rename { base: DirRef::H(0), src: s("a"), dst_base: r, dst: s("a2") });
    a.push(Op::Rename { base: r, src: s("a"), dst_base: DirRef::H(0), dst: s("a3") });
    a.push(Op::Remove { base: DirRef::H(0), path: s("a") });
    a.push(Op::List { base: DirRef::H(0), path: s("") });
    a
}

pub fn specs(tier: &str) -> Vec<ExpSpec> {
    let th = is_thorough(tier);
    let mut v = Vec::new();
    for (ft, dq, dt) in [(FatType::Fat12, 4, 6), (FatType::Fat16, 3, 5), (FatType::Fat32, 3, 5)] {
        let cfg = vol::tiny_with(ft, 8, 16);
        v.push(ExpSpec::new(cfg, alphabet(512), if th { dt } else { dq }));
    }
    // two free clusters: the third directory (or the first growing one) fails for lack of space
    for ft in [FatType::Fat12, FatType::Fat16, FatType::Fat32] {
        v.push(ExpSpec::new(vol::tiny_low(ft, 2, 16), alphabet(512), if th { 5 } else { 3 }));
    }
    // FAT32 cluster numbers above 0xFFFF (directories and moved entries start there)
    v.push(ExpSpec::new(vol::t32_high(), alphabet(512), if th { 3 } else { 2 }));
    // advancing clock: the entries of directories (and of temporaries) are written back with new stamps, so a
    // write-back that lands in a slot that was deleted or moved meanwhile changes the tree
    for ft in [FatType::Fat12, FatType::Fat32] {
        let mut c = vol::tiny_with(ft, 8, 16);
        c.name = format!("{}-clock-atime", c.name);
        c.ticking = true;
        c.atime = true;
        v.push(ExpSpec::new(c, alphabet(512), if th { 4 } else { 3 }));
    }
    // geometry grid (sector 512..4096 x cluster 1..128 sectors x FAT12/16/32 x 1-2 FATs x small/large root), depth 2
    for c in crate::c03::grid(th) {
        let cs = {
            let st = harness::dev::DevState::new(c.base.clone());
            let b = st.read_vec(0, 512);
            harness::decoder::parse_raw(&b).map(|g| g.cluster_size() as u32).unwrap_or(512)
        };
        v.push(ExpSpec::new(c.clone(), alphabet(cs), 2));
        // the same geometry with two open files (one holding data in two clusters) and a directory: the two explored
        // calls then include writes, truncations, removals of entries with data and moves with these cluster sizes
        let mut c2 = c;
        c2.name = format!("{}-pre", c2.name);
        v.push(ExpSpec::new(c2, alphabet(cs), 2).with_prefix(crate::c03::grid_prefix(cs)));
    }
    v.extend(crate::c03::garbage_specs(th));
    v.extend(crate::c03::fragmented_dir_specs(th));
    v.extend(crate::c03::full_dir_specs(th));
    v.extend(crate::c03::dot_path_specs(th));
    v.extend(crate::c03::name_specs(th));
    v
}
