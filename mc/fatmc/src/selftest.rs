//! Machinery self-tests (run by setup): the independent decoder must decode the Linux-made images
//! of the repository to the known tree of scripts/create-test-img.sh with zero invariant findings.

use harness::vol;

pub fn run() -> i32 {
    let mut bad = 0;
    for (name, width) in [("fat12.img", 12u8), ("fat16.img", 16u8)] {
        let p = format!("/repo/resources/{name}");
        let img = match std::fs::read(&p) {
            Ok(i) if !i.is_empty() => i,
            _ => {
                eprintln!("selftest: {p} missing or empty - skipped");
                continue;
            }
        };
        match vol::decode_image(&img) {
            Ok(d) => {
                let flat = d.flat();
                let long: Vec<u8> = b"Rust is cool!\n".repeat(1000);
                let want: Vec<(&str, bool, Option<&[u8]>)> = vec![
                    ("/long.txt", false, Some(&long[..])),
                    ("/short.txt", false, Some(b"Rust is cool!\n")),
                    ("/very", true, None),
                    ("/very/long", true, None),
                    ("/very/long/path", true, None),
                    ("/very/long/path/test.txt", false, Some(b"Rust is cool!\n")),
                    ("/very-long-dir-name", true, None),
                    ("/very-long-dir-name/very-long-file-name.txt", false, Some(b"Rust is cool!\n")),
                ];
                let mut ok = d.geo.width == width && d.findings.is_empty() && flat.len() == want.len();
                for (p, is_dir, content) in &want {
                    match flat.get(*p) {
                        Some(n) => {
                            if n.is_dir != *is_dir || (content.is_some() && n.content.as_deref() != *content) {
                                ok = false;
                                eprintln!("selftest: {name}: {p} differs");
                            }
                        }
                        None => {
                            ok = false;
                            eprintln!("selftest: {name}: {p} missing; have {:?}", flat.keys().collect::<Vec<_>>());
                        }
                    }
                }
                let label_ok = d.dirs[0].labels.iter().any(|(_, l)| l == b"Test!      ");
                if !ok || !label_ok {
                    eprintln!("selftest: decoder FAILED on {name}: width {} findings {:?} label {label_ok}", d.geo.width, d.findings);
                    bad += 1;
                } else {
                    eprintln!("selftest: decoder ok on {name} ({} clusters, {} free)", d.geo.clusters, d.free);
                }
            }
            Err(e) => {
                eprintln!("selftest: decoder FAILED on {name}: {e}");
                bad += 1;
            }
        }
    }
    // tiny volumes build and decode clean
    for ft in [fatfs::FatType::Fat12, fatfs::FatType::Fat16, fatfs::FatType::Fat32] {
        let cfg = vol::tiny(ft);
        let st = harness::dev::DevState::new(cfg.base.clone());
        match harness::sess::decode_dev(&st, &cfg, &[]) {
            Ok(d) if d.findings.is_empty() => eprintln!("selftest: {} ok ({} clusters, {} free)", cfg.name, d.geo.clusters, d.free),
            other => {
                eprintln!("selftest: {} FAILED: {:?}", cfg.name, other.map(|d| d.findings));
                bad += 1;
            }
        }
    }
    if bad > 0 {
        eprintln!("MACHINERY ERROR: selftest failed");
        2
    } else {
        0
    }
}
