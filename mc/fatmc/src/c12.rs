//! C12 — the dirty bit brackets structural changes; clean unmount restores it.

use std::sync::Arc;

use fatfs::FatType;
use harness::dev::Base;
use harness::explore::Checker;
use harness::oracles as o;
use harness::sess::{Cfg, Exec, Op, Which};
use harness::vol;

use crate::alpha;
use crate::common::{is_thorough, ExpSpec};

pub struct C12;

/// coverage counters of the in-call crash points: calls that started on a clean status byte, images rebuilt and decoded
pub static INCALL_CALLS: std::sync::atomic::AtomicU64 = std::sync::atomic::AtomicU64::new(0);
pub static INCALL_IMAGES: std::sync::atomic::AtomicU64 = std::sync::atomic::AtomicU64::new(0);
/// fault follow-up runs (another call / retry / quiet call after one failed device call)
pub static FAULT_RUNS: std::sync::atomic::AtomicU64 = std::sync::atomic::AtomicU64::new(0);

impl Checker for C12 {
    fn plan(&self) -> harness::sess::Plan {
        // (the payload of the last call's writes is needed for its in-call crash points)
        harness::sess::Plan { log_data: true, ..Default::default() }
    }

    fn check(&self, cfg: &Cfg, ops: &[Op], ex: &Exec) -> Vec<(String, String)> {
        let mut v = o::o_dirty("C12", ops, ex);
        v.extend(in_call_crash_points(cfg, ops, ex));
        // One storage fault during an early modifying call, then the session goes on: whatever the failed call
        // left behind, once a later call has changed the volume the dirty bit must be on the disk.
        let n = ops.len();
        let explored = n.saturating_sub(self.prefix_len(cfg));
        let mutating = matches!(
            ops.last(),
            Some(Op::CreateFile { .. } | Op::CreateDir { .. } | Op::Remove { .. } | Op::Rename { .. } | Op::Write { .. } | Op::WriteAll { .. } | Op::Truncate { .. })
        );
        let handle_op = matches!(ops.last(), Some(Op::Write { .. } | Op::WriteAll { .. } | Op::Truncate { .. }));
        // (calls through an open handle need the handle first: up to three explored calls on the populated volumes)
        let max_explored = if handle_op && cfg.name.contains("-pop") {
            3
        } else if std::env::var("VERIF_TIER").map_or(false, |t| t == "thorough") {
            2
        } else {
            1
        };
        // (volumes that are dirty at mount already carry the bit)
        if v.is_empty() && mutating && (1..=max_explored).contains(&explored) && ex.panic.is_none() && ex.status_byte_at_mount & 1 == 0 && ex.calls_last <= 1500 {
            let follow = Op::CreateFile { base: harness::sess::DirRef::Root, path: "after-fault.txt".into(), keep: None };
            // follow-ups: another call (a new file), and - through a handle - the caller simply retrying the failed call
            let mut follows = vec![follow];
            if handle_op {
                follows.push(ops[n - 1].clone());
            }
            // EXT (review 2): a later call that succeeds without changing anything itself (stats; through a handle
            // also flush): what the failed call left behind is compared, by the decoder, with the state before it
            {
                let mut quiet = vec![Op::Stats];
                if handle_op {
                    if let Some(Op::Write { h, .. } | Op::WriteAll { h, .. } | Op::Truncate { h }) = ops.last() {
                        quiet.push(Op::Flush { h: *h });
                    }
                }
                for q in quiet {
                    let mut ops2 = ops.to_vec();
                    ops2.push(q.clone());
                    for k in 1..=ex.calls_last {
                        let plan = harness::sess::Plan { fault: Some((k, 0x00FC_0000 + k as u32)), fault_op: Some(n - 1), ..self.plan() };
                        let fx = harness::sess::run(cfg, &ops2, &plan);
                        FAULT_RUNS.fetch_add(1, std::sync::atomic::Ordering::Relaxed);
                        if fx.panic.is_some() || fx.fired_early.is_none() || !fx.completed {
                            continue;
                        }
                        if !matches!(fx.outs.last(), Some(Ok(_))) {
                            continue;
                        }
                        let (Some(Ok(a)), Some(Ok(b))) = (&ex.pre, &fx.post) else { continue };
                        let fa = a.flat();
                        let fb = b.flat();
                        let differ = fa.len() != fb.len()
                            || fa.iter().zip(fb.iter()).any(|((ka, na), (kb, nb))| ka != kb || na.is_dir != nb.is_dir || na.size != nb.size || na.content != nb.content)
                            || a.free != b.free
                            || a.owner != b.owner;
                        if differ && fx.status_post & 1 == 0 {
                            let kind = harness::explore::op_kind(&ops[n - 1]);
                            let sig = format!("C12/after-storage-fault/dirty-bit-clear-at-later-quiet-call/{}/{}", kind, harness::explore::op_kind(&q));
                            if !v.iter().any(|(s, _)| *s == sig) {
                                v.push((sig, format!("status byte {:#04x}: device call {k} of {:?} failed ({:?}), then {:?} succeeded; the volume differs from its state before the failed call", fx.status_post, ops[n - 1], fx.outs.get(n - 1), q)));
                            }
                        }
                    }
                }
            }
            for follow in follows {
            let mut ops2 = ops.to_vec();
            ops2.push(follow);
            for k in 1..=ex.calls_last {
                let plan = harness::sess::Plan { fault: Some((k, 0x00FC_0000 + k as u32)), fault_op: Some(n - 1), ..self.plan() };
                let fx = harness::sess::run(cfg, &ops2, &plan);
                FAULT_RUNS.fetch_add(1, std::sync::atomic::Ordering::Relaxed);
                if fx.panic.is_some() || fx.fired_early.is_none() {
                    continue;
                }
                // only the follow-up call's own effect is judged: it succeeded, so the volume changed
                if matches!(fx.outs.last(), Some(Ok(_))) {
                    for (sig, msg) in o::o_dirty("C12", &ops2, &fx) {
                        let sig = sig.replace("C12/", "C12/after-storage-fault/");
                        if !v.iter().any(|(s, _)| *s == sig) {
                            v.push((sig, format!("{msg} [device call {k} of {:?} failed, then {:?} succeeded]", ops[n - 1], ops2[n])));
                        }
                    }
                }
            }
            }
        }
        v
    }
}

/// Every device write of the call is a potential point of abandonment as well: as long as the status byte on the
/// storage says clean, the image must still be what it was before the call (allocation, entry sets, sizes, data -
/// independent decode; timestamps do not count). Only calls that start with the bit clear have such points.
fn in_call_crash_points(cfg: &Cfg, ops: &[Op], ex: &Exec) -> Vec<(String, String)> {
    let mut v = Vec::new();
    if ex.panic.is_some() || !ex.completed || matches!(ops.last(), None | Some(Op::Remount | Op::DropRemount | Op::Abandon)) {
        return v;
    }
    let status_of = |st: &harness::dev::DevState| harness::decoder::parse_raw(&st.read_vec(0, 512)).map(|g| g.status).unwrap_or(0xFF);
    let mut st = harness::dev::DevState::new(cfg.base.clone());
    st.overlay = ex.pre_overlay.clone();
    if status_of(&st) & 1 != 0 {
        return v;
    }
    let Ok(pre) = harness::sess::decode_dev(&st, cfg, &[]) else { return v };
    let fa = pre.flat();
    if ex.log.iter().any(|r| r.kind == harness::dev::Kind::Write) {
        INCALL_CALLS.fetch_add(1, std::sync::atomic::Ordering::Relaxed);
    }
    let writes = ex.log.iter().filter(|r| r.kind == harness::dev::Kind::Write).count();
    let mut seen = 0;
    for r in &ex.log {
        if r.kind != harness::dev::Kind::Write {
            continue;
        }
        let Some(d) = &r.data else { return v };
        st.write_at(r.off, d);
        seen += 1;
        if status_of(&st) & 1 != 0 {
            break;
        }
        INCALL_IMAGES.fetch_add(1, std::sync::atomic::Ordering::Relaxed);
        let differ = match harness::sess::decode_dev(&st, cfg, &[]) {
            Ok(b) => {
                let fb = b.flat();
                fa.len() != fb.len()
                    || fa.iter().zip(fb.iter()).any(|((ka, na), (kb, nb))| ka != kb || na.is_dir != nb.is_dir || na.size != nb.size || na.content != nb.content)
                    || pre.free != b.free
                    || pre.owner != b.owner
            }
            Err(_) => true,
        };
        if differ {
            let kind = harness::explore::op_kind(ops.last().unwrap());
            v.push((
                format!("C12/in-call-crash-point/changed-volume-marked-clean/{kind}"),
                format!("after device write {seen} of {writes} of {:?} (offset {:#x}, {} bytes) the image differs from the one before the call and the status byte still says clean", ops.last().unwrap(), r.off, r.len),
            ));
            break;
        }
    }
    v
}

impl C12 {
    fn prefix_len(&self, cfg: &Cfg) -> usize {
        if cfg.name.ends_with("-pop") {
            populate_prefix(512).len()
        } else {
            0
        }
    }
}

pub fn alphabet(cs: u32) -> Vec<Op> {
    let mut a = alpha::mixed(cs);
    // timestamp-only write-backs and the other ways of ending a session
    a.push(Op::SetTime { h: 0, which: Which::Modified, tick: 7 });
    a.push(Op::SetTime { h: 1, which: Which::Accessed, tick: 9 });
    a.push(Op::DropRemount);
    a.push(Op::Abandon);
    a.push(Op::StatusFlags);
    a
}

pub fn with_status(cfg: &Cfg, status: u8) -> Cfg {
    let Base::Bytes(img) = &*cfg.base else { unreachable!() };
    let mut img = img.clone();
    vol::set_status(&mut img, status);
    let mut c = cfg.clone();
    c.base = Arc::new(Base::Bytes(img));
    c.name = format!("{}-st{}", cfg.name, status);
    c
}

/// history prefix: /a (one cluster + 100 bytes) and /d/a exist, then a clean remount: the explored part of
/// every history starts with a fresh mount, so the first modifying call of the session is an explored one
pub fn populate_prefix(cs: u32) -> Vec<Op> {
    let r = harness::sess::DirRef::Root;
    vec![
        Op::CreateFile { base: r, path: "a".into(), keep: Some(0) },
        Op::WriteAll { h: 0, len: cs + 100 },
        Op::CreateDir { base: r, path: "d".into(), keep: None },
        Op::CreateFile { base: r, path: "d/a".into(), keep: Some(1) },
        Op::WriteAll { h: 1, len: 3 },
        Op::Remount,
    ]
}

pub fn specs(tier: &str) -> Vec<ExpSpec> {
    let th = is_thorough(tier);
    let mut v = Vec::new();
    for ft in [FatType::Fat12, FatType::Fat16, FatType::Fat32] {
        let mut c = vol::tiny_with(ft, 8, 16);
        c.name = format!("{}-pop", c.name);
        v.push(ExpSpec::new(c.clone(), alphabet(512), if th { 5 } else { 3 }).with_prefix(populate_prefix(512)));
        // the same with the I/O-error bit set when the volume is first mounted (it must survive every session)
        if ft != FatType::Fat32 || th {
            let mut c2 = with_status(&c, 2);
            c2.name = c2.name.replace("-pop-st2", "-st2-pop");
            v.push(ExpSpec::new(c2, alphabet(512), 3).with_prefix(populate_prefix(512)));
        }
    }
    // builder-made FAT32 whose free clusters are the lowest ones: allocations issue few device calls, so the
    // storage-fault extension (which is skipped for operations with more than 1500 device calls) applies to FAT32 too
    {
        let mut s = harness::builder::MkSpec::new(32);
        s.reserved = 8;
        let mut b = harness::builder::Builder::new(s);
        let keep: Vec<u32> = (3..11).collect();
        b.ballast(&keep);
        b.set_fsinfo(keep.len() as u32, 3);
        let mut cands = keep.clone();
        cands.push(2);
        let c = vol::cfg_from("b32-low-st0", b.finish(), Some(cands));
        v.push(ExpSpec::new(c, alphabet(512), if th { 4 } else { 3 }));
    }
    // two free clusters: a short history fills the volume, so calls that fail for lack of space (after earlier
    // changes of the same session) are explored
    for ft in [FatType::Fat12, FatType::Fat16, FatType::Fat32] {
        let c = with_status(&vol::tiny_low(ft, 2, 16), 0);
        v.push(ExpSpec::new(c, alphabet(512), if th { 5 } else { 4 }));
    }
    for ft in [FatType::Fat12, FatType::Fat16, FatType::Fat32] {
        let cfg = vol::tiny_with(ft, 8, 16);
        for status in 0..4u8 {
            let c = with_status(&cfg, status);
            let d = match (th, status) {
                (true, 0) => 5,
                (true, _) => 4,
                (false, 0) => 4,
                (false, _) => 3,
            };
            v.push(ExpSpec::new(c.clone(), alphabet(512), d));
            if status == 0 {
                let mut ca = c;
                ca.atime = true;
                ca.ticking = true;
                ca.name = format!("{}-atime", ca.name);
                v.push(ExpSpec::new(ca, alphabet(512), if th { 4 } else { 3 }));
            }
        }
    }
    // (a) FAT16/FAT32 volumes whose FAT[1] copy of the status says dirty / hard error while the boot
    // sector byte is clean; (b) status bytes with reserved bits set next to bits 0/1 (judged on bits 0/1 only)
    {
        for ft in [FatType::Fat16, FatType::Fat32] {
            for (d, io) in [(true, false), (false, true), (true, true)] {
                let cfg = vol::tiny_with(ft, 8, 16);
                let mut c = with_status(&cfg, 0);
                let Base::Bytes(img) = &*c.base else { unreachable!() };
                let mut img = img.clone();
                vol::set_fat1_flags(&mut img, d, io);
                c.base = Arc::new(Base::Bytes(img));
                c.name = format!("{}-fat1{}{}", c.name, if d { "d" } else { "" }, if io { "e" } else { "" });
                v.push(ExpSpec::new(c, alphabet(512), if th { 3 } else { 2 }));
            }
        }
        for ft in [FatType::Fat12, FatType::Fat16, FatType::Fat32] {
            let cfg = vol::tiny_with(ft, 8, 16);
            for status in [0x04u8, 0x05, 0x82, 0x43] {
                let c = with_status(&cfg, status);
                v.push(ExpSpec::new(c, alphabet(512), if th { 3 } else { 2 }));
            }
        }
    }
    // FAT12/16 volumes that carry their sector count in the 32-bit field (16-bit field zero), as every FAT16 volume
    // above 65535 sectors does: the status byte is still the one at 0x25 - the layout follows the FAT width, not the field used
    for ft in [FatType::Fat12, FatType::Fat16] {
        let cfg = vol::tiny_with(ft, 8, 16);
        for status in [0u8, 2] {
            let mut c = with_status(&cfg, status);
            let Base::Bytes(img) = &*c.base else { unreachable!() };
            let mut img = img.clone();
            let t16 = u16::from_le_bytes([img[19], img[20]]);
            if t16 != 0 {
                img[32..36].copy_from_slice(&u32::from(t16).to_le_bytes());
                img[19] = 0;
                img[20] = 0;
            }
            c.base = Arc::new(Base::Bytes(img));
            c.name = format!("{}-total32", c.name);
            v.push(ExpSpec::new(c, alphabet(512), if th { 4 } else if status == 0 { 3 } else { 2 }));
        }
    }
    // extended boot signature other than 0x29 (0x28: only the volume id is valid; 0x00: none of the three fields): the
    // status byte next to it is not one of the fields the signature announces
    for ft in [FatType::Fat12, FatType::Fat16, FatType::Fat32] {
        let cfg = vol::tiny_with(ft, 8, 16);
        for (sig, status) in [(0x28u8, 1u8), (0x00, 2), (0x00, 0), (0x28, 3)] {
            if !th && ft == FatType::Fat16 && status != 1 {
                continue;
            }
            let mut c = with_status(&cfg, status);
            let Base::Bytes(img) = &*c.base else { unreachable!() };
            let mut img = img.clone();
            img[if ft == FatType::Fat32 { 66 } else { 38 }] = sig;
            c.base = Arc::new(Base::Bytes(img));
            c.name = format!("{}-sig{sig:02x}", c.name);
            v.push(ExpSpec::new(c, alphabet(512), if th { 3 } else { 2 }));
        }
    }
    v
}
