//! C15 — names: total validation, lossless long names, case-insensitive lookup.
//! Bounded-exhaustive enumeration of candidate names, each on a fresh volume.

use std::cell::Cell;
use std::collections::BTreeMap;
use std::rc::Rc;
use std::sync::atomic::{AtomicU64, Ordering};
use std::time::Instant;

use fatfs::FatType;
use harness::dev::{new_dev, MemDev};
use harness::model::{self, ErrKind};
use harness::report::Report;
use harness::sess::{self, Cfg};
use harness::vol;
use rayon::prelude::*;
use serde_json::json;

use crate::c06::panic_class;
use crate::common::{is_thorough, violation, wall_budget};

pub fn base_cfg() -> Cfg {
    let spec = vol::VolSpec {
        name: "n12-r512".into(),
        fat: FatType::Fat12,
        bps: 512,
        spc: 1,
        fats: 2,
        root_entries: 512,
        clusters: Some(40),
        free: None,
        tail: 0,
    };
    let (img, c) = vol::build(&spec).expect("name volume");
    vol::cfg_from(&spec.name, img, c)
}

/// FAT12 volume without a free cluster whose 16-slot root directory is full
pub fn full_cfg() -> Cfg {
    let spec = vol::VolSpec { name: "n12-full".into(), fat: FatType::Fat12, bps: 512, spc: 1, fats: 2, root_entries: 16, clusters: Some(10), free: Some(0), tail: 0 };
    let (mut img, _) = vol::build(&spec).expect("full volume");
    // fill the root: sixteen short entries
    let g = vol::geo_of(&img);
    let off = g.root_off() as usize;
    for i in 0..16usize {
        let mut name = *b"FILLER00TXT";
        name[6] = b'0' + (i / 10) as u8;
        name[7] = b'0' + (i % 10) as u8;
        let s = harness::builder::sfn_slot(&name, 0x20, 0, harness::builder::Times::default(), 0, 0);
        img[off + i * 32..off + i * 32 + 32].copy_from_slice(&s);
    }
    vol::cfg_from(&spec.name, img, Some(vec![]))
}

/// the base volume as another implementation leaves it: the first root slot is a volume-label entry ("VERIF.LBL" when
/// read as an 8.3 name)
pub fn foreign_cfg() -> Cfg {
    let spec = vol::VolSpec { name: "n12-foreign".into(), fat: FatType::Fat12, bps: 512, spc: 1, fats: 2, root_entries: 512, clusters: Some(40), free: None, tail: 0 };
    let (mut img, c) = vol::build(&spec).expect("foreign volume");
    let g = vol::geo_of(&img);
    let off = g.root_off() as usize;
    let s = harness::builder::sfn_slot(b"VERIF   LBL", 0x08, 0, harness::builder::Times::default(), 0, 0);
    img[off..off + 32].copy_from_slice(&s);
    vol::cfg_from(&spec.name, img, c)
}

/// the limits apply to a name, i.e. to one path component: a path of three valid 100-byte names (302 bytes) is fine,
/// a path whose last component alone is too long / empty / ill-formed is not
pub fn deep_paths(cfg: &Cfg) -> Vec<(String, String)> {
    let mut v = Vec::new();
    let (st, _dev) = new_dev(&cfg.base);
    let ctr = Rc::new(Cell::new(0u32));
    let r = sess::guarded(|| -> Result<(), (String, String)> {
        let fs = sess::mount(MemDev::new(st.clone()), cfg, &ctr).map_err(|e| ("C15/machinery/mount".to_string(), format!("{:?}", sess::ek(e))))?;
        let root = fs.root_dir();
        let (a, b, c, d) = ("a".repeat(100), "b".repeat(100), "é".repeat(50), "d".repeat(100));
        let bad = |what: &str, e: ErrKind| (format!("C15/path/valid-name-rejected/{what}/{}", e.name()), format!("{what} of a 302-byte path made of three valid 100-byte names -> {e:?}"));
        root.create_dir(&a).map_err(|e| bad("prepare", sess::ek(e)))?;
        root.create_dir(&format!("{a}/{b}")).map_err(|e| bad("createdir", sess::ek(e)))?;
        let e3 = "e".repeat(100);
        root.create_dir(&format!("{a}/{b}/{e3}")).map_err(|e| bad("createdir", sess::ek(e)))?;
        root.create_file(&format!("{a}/{b}/{c}")).map_err(|e| bad("createfile", sess::ek(e)))?;
        root.create_file("existing.txt").map_err(|e| bad("prepare", sess::ek(e)))?;
        root.rename("existing.txt", &root, &format!("{a}/{b}/{d}")).map_err(|e| bad("rename", sess::ek(e)))?;
        let deep = root.open_dir(&format!("{}/{}", a.to_uppercase(), b.to_uppercase())).map_err(|e| bad("opendir", sess::ek(e)))?;
        let mut names: Vec<String> = deep.iter().filter_map(Result::ok).map(|e| e.file_name()).filter(|n| n != "." && n != "..").collect();
        names.sort();
        let mut want = vec![c.clone(), d.clone(), e3.clone()];
        want.sort();
        if names != want {
            return Err(("C15/path/accepted-name-not-listed-losslessly".into(), format!("deepest directory lists {} entries", names.len())));
        }
        // the last component is judged on its own
        for (tail, kinds) in [("x".repeat(256), vec![ErrKind::InvalidFileNameLength]), ("x*y".to_string(), vec![ErrKind::UnsupportedFileNameCharacter])] {
            let p = format!("{a}/{b}/{tail}");
            let res = [
                root.create_file(&p).map(|_| ()).map_err(sess::ek),
                root.create_dir(&p).map(|_| ()).map_err(sess::ek),
                root.rename(&format!("{a}/{b}/{c}"), &root, &p).map_err(sess::ek),
            ];
            for (i, r) in res.iter().enumerate() {
                match r {
                    Err(k) if kinds.contains(k) => {}
                    other => return Err((format!("C15/path/wrong-verdict-on-last-component/{i}"), format!("last component {:?}…: {other:?}", tail.chars().take(8).collect::<String>()))),
                }
            }
        }
        Ok(())
    });
    match r {
        Err(p) => v.push((format!("C15/path/panic/{}", panic_class(&p)), p.to_string())),
        Ok(Err(x)) => v.push(x),
        Ok(Ok(())) => {}
    }
    v
}

#[derive(Clone, Copy, PartialEq, Eq, Debug)]
pub enum Via {
    CreateFile,
    CreateDir,
    Rename,
}

fn image_sig(st: &harness::dev::DevState) -> Vec<(u64, [u8; 512])> {
    let mut ov = st.canonical_overlay();
    // ignore the status byte (dirty flag) of the boot sector
    for (p, b) in &mut ov {
        if *p == 0 {
            b[0x25] = 0;
            b[0x41] = 0;
        }
    }
    ov.retain(|(p, b)| {
        if *p != 0 {
            return true;
        }
        let mut base = [0u8; 512];
        st.base.page(0, &mut base);
        base[0x25] = 0;
        base[0x41] = 0;
        *b != base
    });
    ov
}

fn raw_status_bytes(st: &harness::dev::DevState) -> (u8, u8) {
    let b = st.read_vec(0, 512);
    (b[0x25], b[0x41])
}

/// try one candidate name through one API on a fresh volume (in the root, or in subdirectory `sub`)
pub fn try_name(cfg: &Cfg, name: &str, via: Via, in_sub: bool) -> Vec<(String, String)> {
    try_name_in(cfg, name, via, in_sub, false)
}

const NEIGHBOURS: [&str; 2] = ["before-1.txt", "after-1.txt"];

/// `populated`: the directory already holds two neighbour entries with a two-slot hole between them
pub fn try_name_in(cfg: &Cfg, name: &str, via: Via, in_sub: bool, populated: bool) -> Vec<(String, String)> {
    let mut v = Vec::new();
    let (st, dev) = new_dev(&cfg.base);
    let _ = dev;
    let ctr = Rc::new(Cell::new(0u32));
    let vname = format!("{via:?}").to_lowercase();
    let r = sess::guarded(|| -> Result<(), (String, String)> {
        let fs = sess::mount(MemDev::new(st.clone()), cfg, &ctr).map_err(|e| ("C15/machinery/mount".to_string(), format!("{:?}", sess::ek(e))))?;
        let root = fs.root_dir();
        let dir = if in_sub { root.create_dir("sub").map_err(|e| ("C15/machinery/subdir".to_string(), format!("{:?}", sess::ek(e))))? } else { root };
        if populated {
            for n in [NEIGHBOURS[0], "h", NEIGHBOURS[1]] {
                dir.create_file(n).map_err(|e| ("C15/machinery/prepare".to_string(), format!("{:?}", sess::ek(e))))?;
            }
            dir.remove("h").map_err(|e| ("C15/machinery/prepare".to_string(), format!("{:?}", sess::ek(e))))?;
        }
        let extra = if populated { NEIGHBOURS.len() } else { 0 };
        if via == Via::Rename {
            dir.create_file("existing.txt").map_err(|e| ("C15/machinery/prepare".to_string(), format!("{:?}", sess::ek(e))))?;
        }
        let before = image_sig(&st.borrow());
        let free_before = fs.stats().map(|s| s.free_clusters()).ok();
        let status_before = raw_status_bytes(&st.borrow());
        {
            let mut s = st.borrow_mut();
            s.log.clear();
            s.logging = true;
        }
        let res: Result<(), ErrKind> = match via {
            Via::CreateFile => dir.create_file(name).map(|_| ()).map_err(sess::ek),
            Via::CreateDir => dir.create_dir(name).map(|_| ()).map_err(sess::ek),
            Via::Rename => dir.rename("existing.txt", &dir, name).map_err(sess::ek),
        };
        let (nerrs, undoc) = model::name_errors(name);
        let esc: String = name.chars().take(24).flat_map(|c| c.escape_default()).collect();
        let ctx = format!("{vname}({esc:?}{}, {} bytes){}", if name.chars().count() > 24 { "…" } else { "" }, name.len(), if in_sub { " in subdirectory" } else { "" });
        // names that resolve to an existing entry are lookups, not creations
        let dot_in_sub = in_sub && (name == "." || name == "..");
        // whatever the verdict on the candidate: the entries that were there before are still there, unharmed
        if populated {
            for nb in NEIGHBOURS {
                let u: Vec<u16> = nb.encode_utf16().collect();
                let ok = dir.iter().filter_map(Result::ok).any(|e| e.file_name() == nb && e.long_file_name_as_ucs2_units().map_or(true, |l| l == &u[..]));
                if !ok || dir.open_file(nb).is_err() {
                    return Err((format!("C15/neighbour-entry-damaged/{vname}"), format!("{ctx}: {nb:?} is no longer listed / found")));
                }
            }
        }
        match res {
            Err(k) => {
                if dot_in_sub {
                    return Ok(());
                }
                if nerrs.is_empty() && !undoc {
                    return Err((format!("C15/valid-name-rejected/{vname}/{}", k.name()), format!("{ctx} -> {k:?}")));
                }
                if !undoc && !nerrs.contains(&k) {
                    return Err((format!("C15/wrong-error-kind/{vname}/{}", k.name()), format!("{ctx} -> {k:?}, applicable {nerrs:?}")));
                }
                if undoc && !matches!(k, ErrKind::UnsupportedFileNameCharacter | ErrKind::InvalidFileNameLength) {
                    return Err((format!("C15/wrong-error-kind/{vname}/{}", k.name()), format!("{ctx} -> {k:?}")));
                }
                // no side effects: nothing may even be written (a rejected name is refused before anything is touched;
                // in particular the volume is not marked dirty)
                if let Some(w) = st.borrow().log.iter().find(|r| r.kind == harness::dev::Kind::Write) {
                    return Err((format!("C15/rejected-name-causes-writes/{vname}"), format!("{ctx}: write of {} bytes at offset {}", w.len, w.off)));
                }
                if raw_status_bytes(&st.borrow()) != status_before {
                    return Err((format!("C15/rejected-name-has-side-effects/{vname}"), format!("{ctx}: status byte changed")));
                }
                let after = image_sig(&st.borrow());
                if after != before {
                    return Err((format!("C15/rejected-name-has-side-effects/{vname}"), format!("{ctx}: image changed ({} pages)", after.len())));
                }
                if fs.stats().map(|s| s.free_clusters()).ok() != free_before {
                    return Err((format!("C15/rejected-name-changes-free-count/{vname}"), ctx));
                }
                Ok(())
            }
            Ok(()) => {
                if dot_in_sub {
                    return Ok(());
                }
                if !nerrs.is_empty() {
                    return Err((format!("C15/invalid-name-accepted/{vname}/{}", model::ErrKind::name(&nerrs[0])), format!("{ctx} accepted; applicable {nerrs:?}")));
                }
                // lossless: listing returns the name unit for unit
                let units: Vec<u16> = name.encode_utf16().collect();
                let mut found = None;
                let mut others = 0;
                for e in dir.iter() {
                    let e = e.map_err(|e| (format!("C15/listing-error/{vname}"), format!("{ctx}: {:?}", sess::ek(e))))?;
                    let n = e.file_name();
                    if populated && NEIGHBOURS.contains(&n.as_str()) {
                        continue;
                    }
                    if n == "." || n == ".." {
                        if !(in_sub && e.long_file_name_as_ucs2_units().is_none()) {
                            // an entry really called "." / ".."
                        } else {
                            continue;
                        }
                    }
                    // listed under exactly this name; the long-name units, where the entry has any, are the name's
                    if n == name && e.long_file_name_as_ucs2_units().map_or(true, |l| l == &units[..]) {
                        found = Some((e.short_file_name(), e.is_dir()));
                    } else {
                        others += 1;
                    }
                }
                let special = if name == "." || name == ".." {
                    "dot-name"
                } else if name.ends_with('\u{FFFF}') {
                    "name-ending-in-U+FFFF"
                } else {
                    "other-name"
                };
                let Some((alias, is_dir)) = found else {
                    return Err((format!("C15/accepted-name-not-listed-losslessly/{special}/{vname}"), format!("{ctx}: no listed entry carries exactly this long name")));
                };
                if others != 0 {
                    return Err((format!("C15/unexpected-entries/{vname}"), format!("{ctx}: {others} other entries listed")));
                }
                // stored losslessly for every reader, not only for the library's own: the independent decoder finds an
                // entry with exactly this name, and has nothing to say against its long-name run
                {
                    let dpath = if in_sub { "/sub" } else { "/" };
                    match harness::decoder::decode(&st.borrow(), &harness::decoder::DecodeOpts { read_content: false, ..Default::default() }) {
                        Ok(d) => {
                            let seen = d.dir_by_path(dpath).map_or(false, |dd| dd.entries.iter().any(|e| e.name == name));
                            let lfn_finding = d.findings.iter().find(|f| f.sig.starts_with("I5/"));
                            if !seen || lfn_finding.is_some() {
                                return Err((
                                    format!("C15/accepted-name-not-stored-losslessly-on-disk/{special}/{vname}"),
                                    format!("{ctx}: independent decoder finds the name: {seen}; long-name finding: {:?}", lfn_finding.map(|f| f.msg.clone())),
                                ));
                            }
                        }
                        Err(e) => return Err((format!("C15/image-does-not-decode/{vname}"), format!("{ctx}: {e}"))),
                    }
                }
                let open = |q: &str| -> Result<bool, ErrKind> {
                    let r = if is_dir { dir.open_dir(q).map(|_| ()) } else { dir.open_file(q).map(|_| ()) };
                    match r {
                        Ok(()) => Ok(true),
                        Err(e) => match sess::ek(e) {
                            ErrKind::NotFound => Ok(false),
                            k => Err(k),
                        },
                    }
                };
                let mut expect = |q: &str, want: bool, what: &str| -> Result<(), (String, String)> {
                    if q.is_empty() || q.contains('/') || (in_sub && (q == "." || q == "..")) {
                        return Ok(());
                    }
                    match open(q) {
                        Ok(got) if got == want => Ok(()),
                        Ok(got) => Err((
                            format!("C15/lookup-{}/{what}/{vname}", if want { "misses" } else { "matches-wrong-name" }),
                            format!("{ctx}: lookup of {:?} found={got}, expected {want}", q.chars().take(30).collect::<String>()),
                        )),
                        Err(k) => {
                            if want {
                                Err((format!("C15/lookup-error/{what}/{vname}"), format!("{ctx}: lookup {:?} -> {k:?}", q.chars().take(30).collect::<String>())))
                            } else {
                                Ok(())
                            }
                        }
                    }
                };
                let fold = |s: &str| model::fold(s);
                expect(name, true, "exact")?;
                // the name the entry had before the rename is gone (the new alias is generated while the old entry
                // is still live, so it cannot coincide with the old one)
                if via == Via::Rename {
                    expect("existing.txt", fold("existing.txt") == fold(name), "old-name-after-rename")?;
                }
                let up = name.to_uppercase();
                let lo = name.to_lowercase();
                let alias_ascii = alias.is_ascii() && !alias.is_empty();
                let alias_matches = |q: &str| alias_ascii && fold(q) == fold(&alias);
                expect(&up, fold(&up) == fold(name) || alias_matches(&up), "upper-cased")?;
                expect(&lo, fold(&lo) == fold(name) || alias_matches(&lo), "lower-cased")?;
                if alias_ascii {
                    expect(&alias, true, "alias")?;
                    expect(&alias.to_lowercase(), true, "alias-lower-cased")?;
                }
                // near misses
                let appended = format!("{name}x");
                if appended.len() <= 255 {
                    expect(&appended, fold(&appended) == fold(name) || alias_matches(&appended), "near-miss-appended")?;
                }
                let mut chars: Vec<char> = name.chars().collect();
                if chars.len() > 1 {
                    let dropped: String = chars[..chars.len() - 1].iter().collect();
                    expect(&dropped, fold(&dropped) == fold(name) || alias_matches(&dropped), "near-miss-dropped")?;
                }
                if let Some(l) = chars.last_mut() {
                    *l = if *l == 'q' { 'w' } else { 'q' };
                    let replaced: String = chars.iter().collect();
                    expect(&replaced, fold(&replaced) == fold(name) || alias_matches(&replaced), "near-miss-replaced")?;
                }
                // creating a case variant opens the same entry
                if up != name && fold(&up) == fold(name) && via == Via::CreateFile {
                    dir.create_file(&up).map_err(|e| (format!("C15/case-variant-create-failed/{vname}"), format!("{ctx}: {:?}", sess::ek(e))))?;
                    let n = dir.iter().filter(|e| e.as_ref().map_or(true, |e| !matches!(e.file_name().as_str(), "." | ".."))).count();
                    if n != 1 + extra {
                        return Err((format!("C15/case-variant-created-second-entry/{vname}"), format!("{ctx}: creating the upper-cased variant gave {n} entries")));
                    }
                }
                // removing restores an empty directory
                if via != Via::Rename || true {
                    dir.remove(name).map_err(|e| (format!("C15/remove-failed/{vname}"), format!("{ctx}: {:?}", sess::ek(e))))?;
                    let n = dir.iter().filter(|e| e.as_ref().map_or(true, |e| !matches!(e.file_name().as_str(), "." | ".."))).count();
                    if n != extra {
                        return Err((format!("C15/remove-leaves-entries/{vname}"), format!("{ctx}: {n} entries after remove")));
                    }
                }
                Ok(())
            }
        }
    });
    match r {
        Err(p) => v.push((format!("C15/panic/{vname}/{}", panic_class(&p)), format!("{vname}({:?}): {p}", name.chars().take(24).collect::<String>()))),
        Ok(Err(x)) => v.push(x),
        Ok(Ok(())) => {}
    }
    v
}

pub fn candidates(th: bool) -> Vec<(String, bool)> {
    let mut c: Vec<(String, bool)> = Vec::new();
    // (1) every BMP scalar (and astral samples) in the templates
    let mut scalars: Vec<char> = (0u32..=0xFFFF).filter_map(char::from_u32).filter(|ch| *ch != '/').collect();
    for plane in 1u32..=16 {
        let start = plane << 16;
        for i in 0..66u32 {
            let cp = start + i * (0xFFFF / 65);
            if let Some(ch) = char::from_u32(cp.min(start + 0xFFFF)) {
                scalars.push(ch);
            }
        }
    }
    for ch in &scalars {
        c.push((ch.to_string(), false));
        c.push((format!("a{ch}"), false));
        c.push((format!("{ch}b"), false));
        if th || (*ch as u32) < 0x100 || (*ch as u32) >= 0xFF00 || (0xD7F0..=0xE010).contains(&(*ch as u32)) {
            c.push((format!("a{ch}b"), false));
        }
    }
    // (2) every byte length 0..=300 with 1-, 2-, 3- and 4-byte characters
    for unit in ["a", "é", "€", "😀"] {
        let ul = unit.len();
        for len in 0..=300usize {
            if len % ul == 0 {
                c.push((unit.repeat(len / ul), false));
            } else if ul > 1 {
                // pad with 'a' to hit the exact byte length
                let n = len / ul;
                c.push((format!("{}{}", "a".repeat(len - n * ul), unit.repeat(n)), false));
            }
        }
    }
    // (4) dots and spaces
    let alpha = ['.', ' ', 'a'];
    for len in 1..=4usize {
        let mut idx = vec![0usize; len];
        loop {
            let s: String = idx.iter().map(|i| alpha[*i]).collect();
            c.push((s.clone(), false));
            c.push((s, true));
            let mut k = 0;
            while k < len {
                idx[k] += 1;
                if idx[k] < alpha.len() {
                    break;
                }
                idx[k] = 0;
                k += 1;
            }
            if k == len {
                break;
            }
        }
    }
    // (4b) shapes from real directories: reserved device names, 8.3 boundary shapes, several dots, alias look-alikes
    for n in [
        "con", "CON", "prn", "aux", "nul", "NUL", "com1", "lpt1", "con.txt", "nul.tar.gz", "a.b.c.d", ".hidden", "..hidden", "name.toolongext", "12345678.123", "123456789.1", "1234567.1234",
        "UPPER.TXT", "lower.txt", "Mixed.Case", "with space.txt", " leading", "~1", "a~1.txt", "ABCDEF~1.TXT", "abcdef~1.txt", "x+y,z;=[].txt", "readme", "README.", "archive.tar.gz", "a{b}c.d@e",
    ] {
        c.push((n.to_string(), false));
        c.push((n.to_string(), true));
    }
    // (5) case pairs: every BMP scalar with a case mapping, after a plain prefix
    for cp in 0u32..=0xFFFF {
        if let Some(ch) = char::from_u32(cp) {
            let up: String = ch.to_uppercase().collect();
            let lo: String = ch.to_lowercase().collect();
            if up != ch.to_string() || lo != ch.to_string() {
                c.push((format!("x{ch}"), false));
                if th {
                    c.push((format!("x{up}"), false));
                    c.push((format!("x{lo}y"), false));
                }
            }
        }
    }
    c
}

pub fn run(tier: &str) -> i32 {
    let th = is_thorough(tier);
    let t0 = Instant::now();
    let deadline = t0 + wall_budget(tier);
    let cfg = base_cfg();
    let cands = candidates(th);
    let evals = AtomicU64::new(0);
    let capped = AtomicU64::new(0);
    let res: Vec<(Vec<(String, String)>, BTreeMap<String, u64>)> = cands
        .par_chunks(512)
        .map(|chunk| {
            let mut v = Vec::new();
            let mut classes = BTreeMap::new();
            if Instant::now() > deadline {
                capped.fetch_add(chunk.len() as u64, Ordering::Relaxed);
                return (v, classes);
            }
            for (name, sub) in chunk {
                for via in [Via::CreateFile, Via::CreateDir, Via::Rename] {
                    evals.fetch_add(1, Ordering::Relaxed);
                    let r = try_name(&cfg, name, via, *sub);
                    let (ne, undoc) = model::name_errors(name);
                    let class = format!(
                        "{via:?}:{}:{}",
                        if undoc { "astral" } else if ne.is_empty() { "valid" } else if ne.len() == 2 { "len+char" } else if ne[0] == ErrKind::InvalidFileNameLength { "bad-length" } else { "bad-char" },
                        if r.is_empty() { "as-expected" } else { "VIOLATION" }
                    );
                    *classes.entry(class).or_default() += 1;
                    v.extend(r);
                }
            }
            v.sort();
            v.dedup_by(|a, b| a.0 == b.0);
            (v, classes)
        })
        .collect();
    let mut all: BTreeMap<String, (String, u64)> = BTreeMap::new();
    let mut classes: BTreeMap<String, u64> = BTreeMap::new();
    // the short candidates once more in a directory that already holds entries (and a hole left by a removed one)
    let mut populated_evals = 0u64;
    {
        let small: Vec<&(String, bool)> = cands.iter().filter(|(n, _)| (n.chars().count() <= 4 && n.chars().all(|c| (c as u32) < 0x100)) || n.is_ascii()).collect();
        let res: Vec<Vec<(String, String)>> = small
            .par_iter()
            .map(|(n, sub)| {
                let mut v = Vec::new();
                for via in [Via::CreateFile, Via::CreateDir, Via::Rename] {
                    for (sig, msg) in try_name_in(&cfg, n, via, *sub, true) {
                        v.push((sig.replace("C15/", "C15/populated/"), msg));
                    }
                }
                v
            })
            .collect();
        populated_evals += 3 * small.len() as u64;
        for (sig, msg) in res.into_iter().flatten() {
            all.entry(sig.replace("C15/populated/accepted-name-not-listed-losslessly/", "C15/accepted-name-not-listed-losslessly/")).or_insert((msg, 0)).1 += 1;
        }
    }
    // invalid names on a completely full volume with a full root directory: the name error must win over
    // NotEnoughSpace, and still nothing may be written
    let mut full_evals = 0u64;
    {
        let full = full_cfg();
        let bad: Vec<String> = cands.iter().map(|(n, _)| n).filter(|n| n.chars().count() <= 2 && !model::name_errors(n).0.is_empty()).cloned().chain(["a".repeat(256), String::new()]).collect();
        let res: Vec<Vec<(String, String)>> = bad
            .par_iter()
            .map(|n| {
                let mut v = Vec::new();
                for via in [Via::CreateFile, Via::CreateDir] {
                    for (sig, msg) in try_name(&full, n, via, false) {
                        v.push((sig.replace("C15/", "C15/full-volume/"), msg));
                    }
                }
                v
            })
            .collect();
        full_evals += 2 * bad.len() as u64;
        for (sig, msg) in res.into_iter().flatten() {
            all.entry(sig).or_insert((msg, 0)).1 += 1;
        }
    }
    // a name that spells the volume label is an ordinary name: the label is neither a file nor a directory, so it is
    // never what a lookup finds, and it does not stand in the way of a creation
    let mut label_evals = 0u64;
    {
        let foreign = foreign_cfg();
        for n in ["VERIF.LBL", "verif.lbl", "Verif.Lbl", "VERIF", "verif   lbl", "x", "con"] {
            for via in [Via::CreateFile, Via::CreateDir, Via::Rename] {
                label_evals += 1;
                for (sig, msg) in try_name(&foreign, n, via, false) {
                    all.entry(sig.replace("C15/", "C15/beside-volume-label/")).or_insert((msg, 0)).1 += 1;
                }
            }
        }
    }
    for (sig, msg) in deep_paths(&cfg) {
        all.entry(sig).or_insert((msg, 0)).1 += 1;
    }
    // lookups: every (stored name, looked-up name) pair over names with case partners, multi-character
    // expansions, punctuation partners ... against the fold the build documents (with and without `unicode`)
    let mut matrix_pairs = 0u64;
    {
        let dir = crate::c17::tmp_dir();
        let ip = dir.join("c15-matrix.img");
        std::fs::write(&ip, crate::c19::image(FatType::Fat12)).expect("write image");
        for (v, build) in [("a", "unicode"), ("c", "no-unicode")] {
            match crate::c17::run_driver(v, &["c19m", ip.to_str().unwrap()]) {
                Ok(o) => {
                    matrix_pairs += o.evals;
                    for (sig, n, msg) in o.viols {
                        all.entry(format!("{}/{build}", sig.replace("C19/", "C15/"))).or_insert((msg, 0)).1 += n;
                    }
                }
                Err(e) => {
                    eprintln!("MACHINERY ERROR: {e}");
                    return 2;
                }
            }
        }
        let _ = std::fs::remove_file(&ip);
    }
    for (v, c) in res {
        for (sig, msg) in v {
            all.entry(sig).or_insert((msg, 0)).1 += 1;
        }
        for (k, n) in c {
            *classes.entry(k).or_default() += n;
        }
    }
    let mut rep = Report::new("C15", tier, "exploration");
    for (sig, (msg, n)) in all {
        let mut v = violation("C15", &sig, &msg, &cfg.name);
        v.count = n;
        rep.add(v, json!({"check": "C15", "case": msg}));
    }
    let ncap = capped.load(Ordering::Relaxed);
    rep.coverage = json!({
        "evaluations": evals.load(Ordering::Relaxed),
        "distinct_nontrivial": classes.len(),
        "rule": "candidate names: every BMP scalar (except '/', the path separator) and 66 scalars of each astral plane as c in the templates c, ac, cb (thorough: also acb for every c; quick: acb for c < U+0100, the surrogate/private-use boundary and c >= U+FF00); about thirty shapes from real directories (reserved device names, 8.3 boundaries, several dots, alias look-alikes); every byte length 0..=300 built from 1/2/3/4-byte characters; all strings over {'.',' ','a'} of length 1..=4 in the root and in a subdirectory; x+c for every BMP scalar with a case mapping; each through create_file, create_dir and rename on a fresh volume; distinct_nontrivial = distinct (API, name class, verdict) triples",
        "samples": [
            {"name": "", "via": "create_file"},
            {"name": "é", "via": "create_dir"},
            {"name": "a\u{1F600}", "via": "rename"},
            {"name": ". .", "via": "create_file", "where": "subdirectory"}
        ],
        "exhaustive": ncap == 0,
        "candidates": cands.len(),
        "candidates_skipped_by_deadline": ncap,
        "invalid_names_tried_on_a_full_volume": full_evals,
        "candidates_tried_in_a_populated_directory": populated_evals,
        "names_tried_beside_a_volume_label": label_evals,
        "stored_vs_looked_up_name_pairs": matrix_pairs,
        "classes": classes,
        "technique": "bounded-exhaustive enumeration of candidate names on the real crate; acceptance judged by an independent statement of the documented character set, losslessness and lookup by listing / open through the public API",
    });
    rep.assumptions = vec![
        "case folding = flat_map(char::to_uppercase) (Rust's Unicode tables are the trusted base)".into(),
        "'/' is the path separator and not a candidate name character".into(),
    ];
    rep.wall_s = t0.elapsed().as_secs_f64();
    rep.finish()
}
