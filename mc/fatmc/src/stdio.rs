//! The `std::io` facade of the crate: `StdIoWrapper` around a storage that implements the std traits, and the
//! `std::io::{Read, Write, Seek}` implementations of `File`. The main explorers drive the crate's own traits on a
//! storage with its own error type, so these adapters need a driver of their own: every history up to a depth over a
//! small alphabet of std-trait calls on one file, against a byte-vector reference model (C02); one storage fault at
//! every device call of the last call of every history: the `std::io::Error` that comes back carries the storage's
//! error kind and payload (C09); a flush through the std trait reaches the storage as a flush (C14).

use std::cell::RefCell;
use std::io::{Read as _, Seek as _, Write as _};
use std::rc::Rc;

use fatfs::{FileSystem, FsOptions, StdIoWrapper};
use harness::dev::{DevErr, DevState, Kind, MemDev};
use harness::sess::{self, Cfg};

/// std::io face of the harness device
pub struct StdDev {
    inner: MemDev,
}

#[derive(Debug)]
struct Payload(u32);
impl std::fmt::Display for Payload {
    fn fmt(&self, f: &mut std::fmt::Formatter) -> std::fmt::Result {
        write!(f, "injected storage fault {:#x}", self.0)
    }
}
impl std::error::Error for Payload {}

fn kind_for(id: u32) -> std::io::ErrorKind {
    match id % 3 {
        0 => std::io::ErrorKind::PermissionDenied,
        1 => std::io::ErrorKind::TimedOut,
        _ => std::io::ErrorKind::BrokenPipe,
    }
}

fn to_io(e: DevErr) -> std::io::Error {
    std::io::Error::new(kind_for(e.id), Payload(e.id))
}

impl std::io::Read for StdDev {
    fn read(&mut self, buf: &mut [u8]) -> std::io::Result<usize> {
        fatfs::Read::read(&mut self.inner, buf).map_err(to_io)
    }
}
impl std::io::Write for StdDev {
    fn write(&mut self, buf: &[u8]) -> std::io::Result<usize> {
        fatfs::Write::write(&mut self.inner, buf).map_err(to_io)
    }
    fn flush(&mut self) -> std::io::Result<()> {
        fatfs::Write::flush(&mut self.inner).map_err(to_io)
    }
}
impl std::io::Seek for StdDev {
    fn seek(&mut self, pos: std::io::SeekFrom) -> std::io::Result<u64> {
        let p = match pos {
            std::io::SeekFrom::Start(x) => fatfs::SeekFrom::Start(x),
            std::io::SeekFrom::Current(x) => fatfs::SeekFrom::Current(x),
            std::io::SeekFrom::End(x) => fatfs::SeekFrom::End(x),
        };
        fatfs::Seek::seek(&mut self.inner, p).map_err(to_io)
    }
}

type SFs = FileSystem<StdIoWrapper<StdDev>>;

#[derive(Clone, Copy, Debug, PartialEq, Eq)]
pub enum SOp {
    Write(u32),
    WriteAll(u32),
    Read(u32),
    ReadExact(u32),
    ReadToEnd,
    SeekStart(u64),
    SeekCurrent(i64),
    SeekEnd(i64),
    Flush,
}

pub fn alphabet(cs: u32) -> Vec<SOp> {
    vec![
        SOp::Write(1),
        SOp::Write(cs + 1),
        SOp::WriteAll(2 * cs + 1),
        SOp::Read(cs + 1),
        SOp::ReadExact(2),
        SOp::ReadToEnd,
        SOp::SeekStart(0),
        SOp::SeekStart(cs as u64),
        SOp::SeekCurrent(-1),
        SOp::SeekEnd(0),
        SOp::SeekEnd(-1),
        SOp::SeekEnd(1),
        SOp::Flush,
    ]
}

/// what one call returned, in comparable form
#[derive(Debug, Clone, PartialEq, Eq)]
pub enum SRes {
    N(u64),
    Bytes(Vec<u8>),
    Unit,
    Err(String),
}

fn byte_at(off: u64, generation: u32) -> u8 {
    harness::model::pattern(7, off, generation)
}

/// reference model: byte vector + cursor
#[derive(Default, Clone)]
struct M {
    data: Vec<u8>,
    pos: u64,
    generation: u32,
}

impl M {
    fn buf(&self, len: u32) -> Vec<u8> {
        (0..len as u64).map(|i| byte_at(self.pos + i, self.generation)).collect()
    }
    fn write(&mut self, buf: &[u8], n: usize) {
        let end = self.pos as usize + n;
        if self.data.len() < end {
            self.data.resize(end, 0);
        }
        self.data[self.pos as usize..end].copy_from_slice(&buf[..n]);
        self.pos = end as u64;
        self.generation += 1;
    }
}

pub struct Outcome {
    pub viols: Vec<(String, String)>,
    /// device calls issued by the last operation (fault-free runs)
    pub calls_last: u64,
}

/// run one history; `fault`: fail device call `k` (1-based) of the LAST operation with id
pub fn run_history(cfg: &Cfg, hist: &[SOp], fault: Option<(u64, u32)>) -> Outcome {
    let mut out = Outcome { viols: Vec::new(), calls_last: 0 };
    let st = Rc::new(RefCell::new(DevState::new(cfg.base.clone())));
    // write / flush records of the whole session (since the mount), kept apart from the per-call log
    let session: Rc<RefCell<Vec<harness::dev::Rec>>> = Rc::new(RefCell::new(Vec::new()));
    st.borrow_mut().logging = true;
    st.borrow_mut().log_data = true;
    let ctx = format!("{hist:?}");
    let r = sess::guarded(|| -> Result<u64, (String, String)> {
        let dev = StdIoWrapper::new(StdDev { inner: MemDev::new(st.clone()) });
        let fs: SFs = FileSystem::new(dev, FsOptions::new()).map_err(|e| ("machinery/mount".to_string(), format!("{e:?}")))?;
        let root = fs.root_dir();
        let mut f = root.create_file("f").map_err(|e| ("machinery/create".to_string(), format!("{e:?}")))?;
        let mut m = M::default();
        let mut calls_last = 0;
        for (i, op) in hist.iter().enumerate() {
            let last = i + 1 == hist.len();
            if last {
                let mut s = st.borrow_mut();
                session.borrow_mut().extend(s.log.drain(..));
                s.logging = true;
                s.arm(fault, Some(2_000_000));
            }
            let want_buf = match op {
                SOp::Write(n) | SOp::WriteAll(n) => m.buf(*n),
                _ => Vec::new(),
            };
            let res: std::io::Result<SRes> = match op {
                SOp::Write(_) => f.write(&want_buf).map(|n| SRes::N(n as u64)),
                SOp::WriteAll(_) => f.write_all(&want_buf).map(|()| SRes::Unit),
                SOp::Read(n) => {
                    let mut b = vec![0u8; *n as usize];
                    f.read(&mut b).map(|k| SRes::Bytes(b[..k].to_vec()))
                }
                SOp::ReadExact(n) => {
                    let mut b = vec![0u8; *n as usize];
                    f.read_exact(&mut b).map(|()| SRes::Bytes(b))
                }
                SOp::ReadToEnd => {
                    let mut b = Vec::new();
                    f.read_to_end(&mut b).map(|_| SRes::Bytes(b))
                }
                SOp::SeekStart(x) => f.seek(std::io::SeekFrom::Start(*x)).map(SRes::N),
                SOp::SeekCurrent(x) => f.seek(std::io::SeekFrom::Current(*x)).map(SRes::N),
                SOp::SeekEnd(x) => f.seek(std::io::SeekFrom::End(*x)).map(SRes::N),
                SOp::Flush => std::io::Write::flush(&mut f).map(|()| SRes::Unit),
            };
            if last {
                let mut s = st.borrow_mut();
                calls_last = s.calls;
                let fired = s.fired;
                s.disarm();
                if let (Some((_, id)), Some(fd)) = (fault, fired) {
                    // the storage failed once during this call: the std error must carry the storage's kind and payload
                    if fd.in_drop {
                        return Ok(calls_last);
                    }
                    match &res {
                        Err(e) => {
                            let payload = e.get_ref().and_then(|p| p.downcast_ref::<Payload>()).map(|p| p.0);
                            if e.kind() != kind_for(id) || payload != Some(id) {
                                return Err((
                                    format!("std-io/storage-error-not-passed-through/{}", opname(op)),
                                    format!("{ctx}: device {:?} call {} failed with kind {:?} payload {id:#x}; the caller got kind {:?} payload {payload:?}", fd.kind, fd.call_no, kind_for(id), e.kind()),
                                ));
                            }
                        }
                        Ok(r) => {
                            return Err((format!("std-io/storage-error-swallowed/{}", opname(op)), format!("{ctx}: device {:?} call {} failed, the caller got Ok({r:?})", fd.kind, fd.call_no)));
                        }
                    }
                    return Ok(calls_last);
                }
            }
            // fault-free semantics against the model
            let size = m.data.len() as u64;
            let got = match res {
                Ok(r) => r,
                Err(e) => SRes::Err(format!("{:?}", e.kind())),
            };
            let bad = |what: &str, got: &SRes, want: String| Err((format!("std-io/semantics/{}/{what}", opname(op)), format!("{ctx}: step {i} returned {got:?}, expected {want}")));
            match op {
                SOp::Write(n) => match &got {
                    SRes::N(k) if *k >= 1 && *k <= *n as u64 => m.write(&want_buf, *k as usize),
                    _ => return bad("count", &got, format!("1..={n} bytes accepted")),
                },
                SOp::WriteAll(n) => match &got {
                    SRes::Unit => m.write(&want_buf, *n as usize),
                    _ => return bad("result", &got, "Ok".into()),
                },
                SOp::Read(n) => {
                    let avail = size.saturating_sub(m.pos).min(*n as u64);
                    match &got {
                        SRes::Bytes(b) if (avail == 0 && b.is_empty()) || (avail > 0 && !b.is_empty() && b.len() as u64 <= avail && b[..] == m.data[m.pos as usize..m.pos as usize + b.len()]) => m.pos += b.len() as u64,
                        _ => return bad("bytes", &got, format!("up to {avail} bytes of the file at offset {}", m.pos)),
                    }
                }
                SOp::ReadExact(n) => {
                    if m.pos + *n as u64 <= size {
                        match &got {
                            SRes::Bytes(b) if b[..] == m.data[m.pos as usize..m.pos as usize + *n as usize] => m.pos += *n as u64,
                            _ => return bad("bytes", &got, format!("{n} bytes of the file at offset {}", m.pos)),
                        }
                    } else {
                        match &got {
                            SRes::Err(k) if k == "UnexpectedEof" => m.pos = size, // (cursor position after a failed read_exact is unspecified: continue from the library's)
                            _ => return bad("eof", &got, "UnexpectedEof".into()),
                        }
                        m.pos = f.stream_position().map_err(|e| ("machinery/stream_position".to_string(), format!("{e:?}")))?;
                    }
                }
                SOp::ReadToEnd => match &got {
                    SRes::Bytes(b) if b[..] == m.data[(m.pos.min(size)) as usize..] => m.pos = size.max(m.pos),
                    _ => return bad("bytes", &got, format!("the {} bytes from offset {} to the end", size.saturating_sub(m.pos), m.pos)),
                },
                SOp::SeekStart(_) | SOp::SeekCurrent(_) | SOp::SeekEnd(_) => {
                    let target: i128 = match op {
                        SOp::SeekStart(x) => *x as i128,
                        SOp::SeekCurrent(x) => m.pos as i128 + *x as i128,
                        SOp::SeekEnd(x) => size as i128 + *x as i128,
                        _ => unreachable!(),
                    };
                    if target < 0 {
                        match &got {
                            SRes::Err(_) => {}
                            _ => return bad("before-start", &got, "an error".into()),
                        }
                    } else {
                        let want = (target as u64).min(size);
                        match &got {
                            SRes::N(p) if *p == want => m.pos = want,
                            _ => return bad("position", &got, format!("{want}")),
                        }
                    }
                }
                SOp::Flush => {
                    if got != SRes::Unit {
                        return bad("result", &got, "Ok".into());
                    }
                    if last {
                        let s = st.borrow();
                        // durability, not call counting: the image made of everything the storage received up to its
                        // last flush must hold the file with the content written so far (a wrapper may skip a flush
                        // nothing depends on; writes that the file does not depend on may follow the flush)
                        let mut all = session.borrow().clone();
                        all.extend(s.log.iter().cloned());
                        let last_flush = all.iter().rposition(|r| r.kind == Kind::Flush);
                        let mut img = DevState::new(cfg.base.clone());
                        for r in all.iter().take(last_flush.unwrap_or(0)) {
                            if let (Kind::Write, Some(d)) = (r.kind, &r.data) {
                                img.write_at(r.off, d);
                            }
                        }
                        let found = sess::decode_dev(&img, cfg, &[]).ok().and_then(|d| d.find_entry("/f").map(|e| (e.size as usize, e.content.clone())));
                        let durable = match &found {
                            Some((size, content)) => *size == m.data.len() && (m.data.is_empty() || content.as_deref() == Some(&m.data[..])),
                            None => false,
                        };
                        if !durable {
                            return Err((
                                "std-io/flush-not-forwarded-to-the-storage".into(),
                                format!("{ctx}: the image of everything written before the last device flush (record {last_flush:?}) holds f as {:?} bytes, written so far: {}", found.as_ref().map(|f| f.0), m.data.len()),
                            ));
                        }
                    }
                }
            }
        }
        // close, remount through the std facade, read back
        drop(f);
        drop(root);
        fs.unmount().map_err(|e| ("std-io/unmount-failed".to_string(), format!("{ctx}: {e:?}")))?;
        let dev = StdIoWrapper::new(StdDev { inner: MemDev::new(st.clone()) });
        let fs: SFs = FileSystem::new(dev, FsOptions::new()).map_err(|e| ("std-io/remount-failed".to_string(), format!("{ctx}: {e:?}")))?;
        let mut f = fs.root_dir().open_file("f").map_err(|e| ("std-io/reopen-failed".to_string(), format!("{ctx}: {e:?}")))?;
        let mut b = Vec::new();
        f.read_to_end(&mut b).map_err(|e| ("std-io/read-back-failed".to_string(), format!("{ctx}: {e:?}")))?;
        if b != m.data {
            return Err(("std-io/content-after-remount-differs".into(), format!("{ctx}: {} bytes read back, model has {}", b.len(), m.data.len())));
        }
        Ok(calls_last)
    });
    match r {
        Err(p) => out.viols.push((format!("std-io/panic/{}", crate::c06::panic_class(&p)), format!("{ctx}: {p}"))),
        Ok(Err(x)) => out.viols.push(x),
        Ok(Ok(c)) => out.calls_last = c,
    }
    out
}

fn opname(op: &SOp) -> &'static str {
    match op {
        SOp::Write(_) => "write",
        SOp::WriteAll(_) => "write_all",
        SOp::Read(_) => "read",
        SOp::ReadExact(_) => "read_exact",
        SOp::ReadToEnd => "read_to_end",
        SOp::SeekStart(_) | SOp::SeekCurrent(_) | SOp::SeekEnd(_) => "seek",
        SOp::Flush => "flush",
    }
}

pub struct Summary {
    pub histories: u64,
    pub fault_runs: u64,
    pub viols: Vec<(String, String)>,
}

/// every history of length 1..=depth; `faults`: also one fault at every device call of the last call of every history
/// of length <= fault_depth. `keep`: which violation signatures belong to the calling check.
pub fn explore(cfg: &Cfg, depth: usize, fault_depth: usize, keep: &dyn Fn(&str) -> bool) -> Summary {
    use rayon::prelude::*;
    let alpha = alphabet(512);
    let mut hists: Vec<Vec<SOp>> = vec![vec![]];
    let mut all: Vec<Vec<SOp>> = Vec::new();
    for _ in 0..depth {
        let mut next = Vec::new();
        for h in &hists {
            for op in &alpha {
                let mut h2 = h.clone();
                h2.push(*op);
                next.push(h2);
            }
        }
        all.extend(next.iter().cloned());
        hists = next;
    }
    let res: Vec<(Vec<(String, String)>, u64)> = all
        .par_iter()
        .map(|h| {
            let o = run_history(cfg, h, None);
            let mut v = o.viols;
            let mut fr = 0;
            if v.is_empty() && h.len() <= fault_depth {
                for k in 1..=o.calls_last {
                    fr += 1;
                    let id = 0x00D0_0000 + k as u32;
                    v.extend(run_history(cfg, h, Some((k, id))).viols);
                    if !v.is_empty() {
                        break;
                    }
                }
            }
            (v, fr)
        })
        .collect();
    let mut s = Summary { histories: all.len() as u64, fault_runs: 0, viols: Vec::new() };
    let mut seen = std::collections::BTreeSet::new();
    for (v, fr) in res {
        s.fault_runs += fr;
        for (sig, msg) in v {
            if keep(&sig) && seen.insert(sig.clone()) {
                s.viols.push((sig, msg));
            }
        }
    }
    s
}

/// FileSystem::new through the facade with one storage fault at every device call of the mount
pub fn mount_faults(cfg: &Cfg) -> Vec<(String, String)> {
    let mut out: Vec<(String, String)> = Vec::new();
    let mut n = 0;
    {
        let st = Rc::new(RefCell::new(DevState::new(cfg.base.clone())));
        st.borrow_mut().arm(None, Some(2_000_000));
        let dev = StdIoWrapper::new(StdDev { inner: MemDev::new(st.clone()) });
        let r = sess::guarded(|| FileSystem::<StdIoWrapper<StdDev>>::new(dev, FsOptions::new()).map(drop).is_ok());
        if r == Ok(true) {
            n = st.borrow().calls;
        } else {
            out.push(("std-io/machinery/mount".into(), format!("fault-free mount failed: {r:?}")));
        }
    }
    for k in 1..=n {
        let id = 0x00D8_0000 + k as u32;
        let st = Rc::new(RefCell::new(DevState::new(cfg.base.clone())));
        st.borrow_mut().arm(Some((k, id)), Some(2_000_000));
        let dev = StdIoWrapper::new(StdDev { inner: MemDev::new(st.clone()) });
        let r = sess::guarded(|| match FileSystem::<StdIoWrapper<StdDev>>::new(dev, FsOptions::new()) {
            Ok(fs) => {
                drop(fs);
                None
            }
            Err(fatfs::Error::Io(e)) => Some((Some(e.kind()), e.get_ref().and_then(|p| p.downcast_ref::<Payload>()).map(|p| p.0), format!("{e:?}"))),
            Err(e) => Some((None, None, format!("{e:?}"))),
        });
        let fired = st.borrow().fired;
        let Some(fd) = fired else { continue };
        if fd.in_drop {
            continue;
        }
        let v = match r {
            Err(p) => Some(("std-io/panic/mount".to_string(), p)),
            Ok(None) => Some(("std-io/storage-error-swallowed/mount".to_string(), "mount returned Ok".to_string())),
            Ok(Some((kind, payload, dbg))) if kind != Some(kind_for(id)) || payload != Some(id) => Some(("std-io/storage-error-not-passed-through/mount".to_string(), format!("the caller got {dbg}"))),
            Ok(Some(_)) => None,
        };
        if let Some((sig, msg)) = v {
            if !out.iter().any(|(s, _)| *s == sig) {
                out.push((sig, format!("mount: device {:?} call {k}/{n} failed with kind {:?} payload {id:#x}: {msg}", fd.kind, kind_for(id))));
            }
        }
    }
    out
}
