//! C17 — directory decoding is total on arbitrary slot contents (dynamic and fixed-buffer builds).
//! The enumeration itself runs inside the feature-variant drivers (featdrv_a / featdrv_b); this module
//! builds the volumes, runs both drivers and collects their verdicts.

use std::collections::BTreeMap;
use std::path::PathBuf;
use std::process::Command;
use std::time::Instant;

use harness::builder::{self, Builder, MkSpec, Times};
use harness::report::{self, Report};
use serde_json::json;

use crate::common::violation;

pub fn tmp_dir() -> PathBuf {
    let d = std::env::current_exe().ok().and_then(|e| e.parent().map(|p| p.join("../tmp"))).unwrap_or_else(|| PathBuf::from(report::verif_root()).join("mc/target/tmp"));
    let _ = std::fs::create_dir_all(&d);
    d
}

pub fn driver(v: &str) -> PathBuf {
    let exe = std::env::current_exe().expect("exe");
    exe.parent().unwrap().join(format!("featdrv_{v}"))
}

/// FAT12 volume with a 64-slot fixed root (patched in place by the driver)
pub fn root_image() -> Vec<u8> {
    let mut s = MkSpec::new(12);
    s.root_entries = 64;
    s.clusters = 40;
    Builder::new(s).finish()
}

/// FAT32 volume whose first root entry is the directory SUB with three contiguous clusters
pub fn sub_image() -> Vec<u8> {
    let s = MkSpec::new(32);
    let mut b = Builder::new(s);
    let chain = [3u32, 4, 5];
    let mut slots = builder::dot_slots(3, 0, Times::default());
    slots.push([0u8; 32]);
    b.write_dir(&chain, &slots);
    let root = vec![builder::sfn_slot(b"SUB        ", 0x10, 0, Times::default(), 3, 0)];
    b.write_dir(&[2], &root);
    b.ballast(&[6, 7]);
    b.set_fsinfo(2, 6);
    b.finish()
}

pub struct DrvOut {
    pub evals: u64,
    pub hash: String,
    pub viols: Vec<(String, u64, String)>,
}

pub fn run_driver(v: &str, args: &[&str]) -> Result<DrvOut, String> {
    let out = Command::new(driver(v)).args(args).output().map_err(|e| format!("cannot run featdrv_{v}: {e}"))?;
    if !out.status.success() {
        return Err(format!("featdrv_{v} {:?} exited with {:?}: {}", args, out.status.code(), String::from_utf8_lossy(&out.stderr)));
    }
    let mut r = DrvOut { evals: 0, hash: String::new(), viols: vec![] };
    for l in String::from_utf8_lossy(&out.stdout).lines() {
        if let Some(rest) = l.strip_prefix("STAT ") {
            for kv in rest.split(' ') {
                if let Some(x) = kv.strip_prefix("evaluations=") {
                    r.evals = x.parse().unwrap_or(0);
                }
                if let Some(x) = kv.strip_prefix("hash=") {
                    r.hash = x.to_string();
                }
            }
        } else if let Some(rest) = l.strip_prefix("VIOL ") {
            let mut it = rest.splitn(3, '\t');
            let sig = it.next().unwrap_or("").to_string();
            let n = it.next().and_then(|x| x.parse().ok()).unwrap_or(1);
            let msg = it.next().unwrap_or("").to_string();
            r.viols.push((sig, n, msg));
        }
    }
    Ok(r)
}

pub fn run(tier: &str) -> i32 {
    let t0 = Instant::now();
    let dir = tmp_dir();
    let root_p = dir.join("c17-root.img");
    let sub_p = dir.join("c17-sub.img");
    std::fs::write(&root_p, root_image()).expect("write image");
    std::fs::write(&sub_p, sub_image()).expect("write image");
    let mut rep = Report::new("C17", tier, "exploration");
    let mut all: BTreeMap<String, (String, u64, String)> = BTreeMap::new();
    let mut evals = 0u64;
    let mut per = Vec::new();
    // the small case families once more with every trace record of the library formatted (log arguments are code too)
    for (mode, path) in [("root", &root_p), ("sub", &sub_p)] {
        for (v, build) in [("a", "dynamic-buffer(alloc)"), ("b", "fixed-buffer(no-alloc)")] {
            match run_driver(v, &["c17", path.to_str().unwrap(), mode, "trace-subset"]) {
                Ok(o) => {
                    evals += o.evals;
                    per.push(json!({"build": build, "directory": mode, "pass": "trace-level logging, small families", "evaluations": o.evals}));
                    for (sig, n, msg) in o.viols {
                        all.entry(format!("{sig}/{build}/trace-logging")).or_insert((msg, 0, mode.to_string())).1 += n;
                    }
                }
                Err(e) => {
                    eprintln!("MACHINERY ERROR: {e}");
                    return 2;
                }
            }
        }
    }
    // the families with bytes >= 0x80 in judged 8.3 names once more on a volume mounted with a non-default, injective OEM
    // code page (FsOptions::oem_cp_converter): every 8.3 text must be spelled with the converter of the volume
    for (mode, path) in [("root", &root_p), ("sub", &sub_p)] {
        let mut hashes = Vec::new();
        for (v, build) in [("a", "dynamic-buffer(alloc)"), ("b", "fixed-buffer(no-alloc)")] {
            match run_driver(v, &["c17", path.to_str().unwrap(), mode, "oem-alt"]) {
                Ok(o) => {
                    evals += o.evals;
                    per.push(json!({"build": build, "directory": mode, "pass": "non-default OEM code page (injective test converter), families with 8.3 bytes >= 0x80", "evaluations": o.evals, "listing_hash": o.hash}));
                    hashes.push(o.hash.clone());
                    for (sig, n, msg) in o.viols {
                        all.entry(format!("{sig}/{build}/oem-alt")).or_insert((msg, 0, format!("{mode}/{build}/oem-alt"))).1 += n;
                    }
                }
                Err(e) => {
                    eprintln!("MACHINERY ERROR: {e}");
                    return 2;
                }
            }
        }
        if hashes.len() == 2 && hashes[0] != hashes[1] {
            all.entry("C17/builds-disagree/oem-alt".into()).or_insert((
                format!("directory {mode}, non-default OEM code page: the dynamic-buffer and the fixed-buffer build return different entries for the same slot contents (listing hashes {} vs {})", hashes[0], hashes[1]),
                1,
                mode.to_string(),
            ));
        }
    }
    for (mode, path) in [("root", &root_p), ("sub", &sub_p)] {
        let mut hashes = Vec::new();
        for (v, build) in [("a", "dynamic-buffer(alloc)"), ("b", "fixed-buffer(no-alloc)")] {
            match run_driver(v, &["c17", path.to_str().unwrap(), mode, tier]) {
                Ok(o) => {
                    evals += o.evals;
                    per.push(json!({"build": build, "directory": mode, "evaluations": o.evals, "listing_hash": o.hash, "violating_classes": o.viols.len()}));
                    hashes.push(o.hash.clone());
                    for (sig, n, msg) in o.viols {
                        let e = all.entry(format!("{sig}/{build}")).or_insert((msg, 0, format!("{mode}/{build}")));
                        e.1 += n;
                    }
                }
                Err(e) => {
                    eprintln!("MACHINERY ERROR: {e}");
                    return 2;
                }
            }
        }
        if hashes.len() == 2 && hashes[0] != hashes[1] {
            all.entry("C17/builds-disagree".into()).or_insert((
                format!("directory {mode}: the dynamic-buffer and the fixed-buffer build return different entries for the same slot contents (listing hashes {} vs {})", hashes[0], hashes[1]),
                1,
                mode.to_string(),
            ));
        }
    }
    let _ = std::fs::remove_file(&root_p);
    let _ = std::fs::remove_file(&sub_p);
    for (sig, (msg, n, cfg)) in all {
        let mut v = violation("C17", &sig, &msg, &cfg);
        v.count = n;
        rep.add(v, json!({"check": "C17", "case": msg}));
    }
    rep.coverage = json!({
        "evaluations": evals,
        "distinct_nontrivial": per.len() * 4,
        "rule": "per directory kind (FAT12 fixed root, FAT32 cluster-chained subdirectory) and per build (dynamic / fixed long-name buffer): full product of per-slot choices (14 order bytes x right/wrong checksum x 3 attribute bytes x 8 text kinds) for runs of 1 and 2 long-name slots x 8 terminators (thorough: 3 slots on 6 orders); maximal and over-long runs; abandoned-run probes; runs with a deleted / inserted foreign slot at every position; every sequence of up to 5 (thorough: 7) slots over twelve slot kinds (last/non-last long-name slots of index 1..3, wrong checksum, index 0 and 21, deleted entry, volume label, foreign short entry) in front of the matching short entry; every value of every byte of a valid 2-slot run + short entry (thorough: all pairs of byte positions on 16 boundary values); every value of every byte of a short entry WITHOUT a run (8.3 display path) for six base names x the four case-flag combinations; the byte sweeps, the special cases and the short slot-kind sequences once more on a volume mounted with a non-default injective OEM code page (FsOptions::oem_cp_converter; the oracle spells 8.3 texts with the same mapping); every 16-bit value in all five date/time words x 6 values of the 10 ms byte; every value of every name byte with the run re-made for that name; each listing judged against the independent long-name state machine under every admissible reading; distinct_nontrivial = (directory kinds x builds) x 5 case families",
        "samples": [
            {"family": "f1/k2", "slots": "[0x42 wrong-checksum attr 0x0F text#2][0x01 right-checksum attr 0x1F text#5][matching short entry]"},
            {"family": "special", "case": "full-run-20-slots-260-units"},
            {"family": "byte", "case": "byte/43=0xe5"}
        ],
        "exhaustive": true,
        "per_build": per,
        "technique": "bounded-exhaustive enumeration of directory slot contents on the real crate (two feature builds), judged by the independent long-name state machine",
    });
    rep.assumptions = vec!["attribute bytes with extra bits and order bytes with the undefined bits 0x80/0x20 admit two readings; the library may follow either".into()];
    rep.wall_s = t0.elapsed().as_secs_f64();
    rep.finish()
}
