//! In-memory block device with overlay pages, call log, fault / short-transfer injection and
//! a device-call budget. Implements the `fatfs` I/O traits.

use std::cell::RefCell;
use std::collections::BTreeMap;
use std::rc::Rc;
use std::sync::Arc;

use fatfs::{IoBase, IoError, Read, Seek, SeekFrom, Write};

pub const PAGE: u64 = 512;

pub const ID_EOF: u32 = 0xE0F0_0001;
pub const ID_WRITE_ZERO: u32 = 0xE0F0_0002;
pub const ID_BUDGET: u32 = 0xE0F0_0003;
pub const ID_NEG_SEEK: u32 = 0xE0F0_0004;
/// retryable ("interrupted") error: the call had no effect and may be repeated
pub const ID_INTR: u32 = 0xE0F0_0005;

#[derive(Debug, Clone, Copy, PartialEq, Eq)]
pub struct DevErr {
    pub id: u32,
}

impl IoError for DevErr {
    fn is_interrupted(&self) -> bool {
        self.id == ID_INTR
    }
    fn new_unexpected_eof_error() -> Self {
        DevErr { id: ID_EOF }
    }
    fn new_write_zero_error() -> Self {
        DevErr { id: ID_WRITE_ZERO }
    }
}

/// Immutable shared base image.
pub enum Base {
    Bytes(Vec<u8>),
    /// procedural base: `f(page_no, out)` fills a 512-byte page
    Proc {
        len: u64,
        f: Box<dyn Fn(u64, &mut [u8; 512]) + Send + Sync>,
    },
}

impl Base {
    pub fn len(&self) -> u64 {
        match self {
            Base::Bytes(v) => v.len() as u64,
            Base::Proc { len, .. } => *len,
        }
    }
    pub fn page(&self, pno: u64, out: &mut [u8; 512]) {
        match self {
            Base::Bytes(v) => {
                let s = (pno * PAGE) as usize;
                if s >= v.len() {
                    out.fill(0);
                    return;
                }
                let e = (s + 512).min(v.len());
                out[..e - s].copy_from_slice(&v[s..e]);
                out[e - s..].fill(0);
            }
            Base::Proc { f, .. } => f(pno, out),
        }
    }
}

#[derive(Debug, Clone, Copy, PartialEq, Eq, Hash)]
pub enum Kind {
    Read,
    Write,
    Seek,
    Flush,
}

#[derive(Debug, Clone)]
pub struct Rec {
    pub kind: Kind,
    pub off: u64,
    pub len: u32,
    pub in_drop: bool,
    /// payload of writes (only when `log_data`)
    pub data: Option<Vec<u8>>,
    /// harness marker: index of the public operation during which the call was made
    pub op_idx: u32,
}

#[derive(Debug, Clone, Copy, PartialEq, Eq)]
pub enum Short {
    Exact,
    /// every read/write of n>1 bytes transfers ceil(n/2)
    Always,
    /// only the k-th (1-based, counted from arming) read/write call is short
    At(u64),
    /// a transfer is cut at the next multiple of b bytes of the device offset (storage with its own block size)
    Block(u64),
}

#[derive(Debug, Clone, Copy)]
pub struct Fired {
    pub kind: Kind,
    pub in_drop: bool,
    pub call_no: u64,
    pub id: u32,
}

pub struct DevState {
    pub base: Arc<Base>,
    pub overlay: BTreeMap<u64, Box<[u8; 512]>>,
    pub len: u64,
    pub log: Vec<Rec>,
    pub logging: bool,
    pub log_reads: bool,
    pub log_data: bool,
    pub op_idx: u32,
    /// device calls since arming
    pub calls: u64,
    pub rw_calls: u64,
    pub fail_at: Option<(u64, u32)>,
    pub fired: Option<Fired>,
    pub short: Short,
    pub budget: Option<u64>,
    pub budget_hit: bool,
    /// highest end offset ever addressed by a read or write (exclusive)
    pub max_addr: u64,
    /// a write (or part of it) addressed bytes at or beyond the physical end
    pub oob_write: bool,
    pub n_writes: u64,
    pub n_flushes: u64,
    /// do not materialise overlay pages for zero-fills of zero base pages (huge sparse volumes)
    pub sparse_zero: bool,
}

impl DevState {
    pub fn new(base: Arc<Base>) -> Self {
        let len = base.len();
        DevState {
            base,
            overlay: BTreeMap::new(),
            len,
            log: Vec::new(),
            logging: false,
            log_reads: false,
            log_data: false,
            op_idx: 0,
            calls: 0,
            rw_calls: 0,
            fail_at: None,
            fired: None,
            short: Short::Exact,
            budget: None,
            budget_hit: false,
            max_addr: 0,
            oob_write: false,
            n_writes: 0,
            n_flushes: 0,
            sparse_zero: false,
        }
    }

    /// reset call counters and arm a fault / budget for the next operation
    pub fn arm(&mut self, fail_at: Option<(u64, u32)>, budget: Option<u64>) {
        self.calls = 0;
        self.rw_calls = 0;
        self.fail_at = fail_at;
        self.fired = None;
        self.budget = budget;
        self.budget_hit = false;
    }

    pub fn disarm(&mut self) {
        self.fail_at = None;
        self.budget = None;
    }

    /// raw read without logging / cursor / faults (harness use)
    pub fn read_at(&self, off: u64, buf: &mut [u8]) {
        let mut done = 0usize;
        let mut tmp = [0u8; 512];
        while done < buf.len() {
            let o = off + done as u64;
            let pno = o / PAGE;
            let inp = (o % PAGE) as usize;
            let n = (512 - inp).min(buf.len() - done);
            if o >= self.len {
                buf[done..].fill(0);
                break;
            }
            if let Some(p) = self.overlay.get(&pno) {
                buf[done..done + n].copy_from_slice(&p[inp..inp + n]);
            } else {
                self.base.page(pno, &mut tmp);
                buf[done..done + n].copy_from_slice(&tmp[inp..inp + n]);
            }
            done += n;
        }
    }

    pub fn read_vec(&self, off: u64, len: usize) -> Vec<u8> {
        let mut v = vec![0u8; len];
        self.read_at(off, &mut v);
        v
    }

    /// raw write without logging (harness use: patching images)
    pub fn write_at(&mut self, off: u64, data: &[u8]) {
        // zero-fill of a page that is zero in the base and not yet in the overlay: nothing to store
        if self.sparse_zero && data.len() <= 512 && (off % PAGE) + data.len() as u64 <= PAGE && !self.overlay.contains_key(&(off / PAGE)) && data.iter().all(|b| *b == 0) {
            let mut tmp = [0u8; 512];
            self.base.page(off / PAGE, &mut tmp);
            if tmp.iter().all(|b| *b == 0) {
                return;
            }
        }
        let mut done = 0usize;
        while done < data.len() {
            let o = off + done as u64;
            let pno = o / PAGE;
            let inp = (o % PAGE) as usize;
            let n = (512 - inp).min(data.len() - done);
            let base = &self.base;
            let p = self.overlay.entry(pno).or_insert_with(|| {
                let mut b = Box::new([0u8; 512]);
                base.page(pno, &mut b);
                b
            });
            p[inp..inp + n].copy_from_slice(&data[done..done + n]);
            done += n;
        }
    }

    /// canonical overlay: pages that differ from the base
    pub fn canonical_overlay(&self) -> Vec<(u64, [u8; 512])> {
        let mut out = Vec::new();
        let mut tmp = [0u8; 512];
        for (pno, p) in &self.overlay {
            self.base.page(*pno, &mut tmp);
            if tmp != **p {
                out.push((*pno, **p));
            }
        }
        out
    }

    pub fn clone_overlay(&self) -> BTreeMap<u64, Box<[u8; 512]>> {
        self.overlay.clone()
    }

    /// full byte image (only for small devices)
    pub fn image(&self) -> Vec<u8> {
        self.read_vec(0, self.len as usize)
    }

    fn pre_call(&mut self, kind: Kind) -> Result<(), DevErr> {
        self.calls += 1;
        if let Some(b) = self.budget {
            if self.calls > b {
                self.budget_hit = true;
                if self.calls > 2 * b + 100_000 {
                    panic!("VERIF_BUDGET_HARD_STOP");
                }
                return Err(DevErr { id: ID_BUDGET });
            }
        }
        if let Some((k, id)) = self.fail_at {
            if self.calls == k && self.fired.is_none() {
                self.fired = Some(Fired {
                    kind,
                    in_drop: fatfs::verif::drop_depth() > 0,
                    call_no: k,
                    id,
                });
                return Err(DevErr { id });
            }
        }
        Ok(())
    }

    fn short_len_at(&mut self, n: usize, pos: u64) -> usize {
        if let Short::Block(b) = self.short {
            self.rw_calls += 1;
            let to_boundary = b - pos % b;
            return (n as u64).min(to_boundary) as usize;
        }
        self.short_len(n)
    }

    fn short_len(&mut self, n: usize) -> usize {
        self.rw_calls += 1;
        if n <= 1 {
            return n;
        }
        match self.short {
            Short::Exact => n,
            Short::Always => (n + 1) / 2,
            Short::At(k) => {
                if self.rw_calls == k {
                    (n + 1) / 2
                } else {
                    n
                }
            }
            Short::Block(_) => n,
        }
    }

    fn rec(&mut self, kind: Kind, off: u64, len: usize, data: Option<&[u8]>) {
        // reads and seeks are not logged (no oracle needs them; whole-FAT scans would produce tens of millions of
        // records) unless asked for
        if self.logging && (self.log_reads || matches!(kind, Kind::Write | Kind::Flush)) {
            let in_drop = fatfs::verif::drop_depth() > 0;
            let data = if self.log_data { data.map(<[u8]>::to_vec) } else { None };
            self.log.push(Rec {
                kind,
                off,
                len: len as u32,
                in_drop,
                data,
                op_idx: self.op_idx,
            });
        }
    }
}

/// The handle given to the library. Cloning the handle shares the state but not the cursor.
pub struct MemDev {
    pub st: Rc<RefCell<DevState>>,
    pub pos: u64,
}

impl MemDev {
    pub fn new(st: Rc<RefCell<DevState>>) -> Self {
        MemDev { st, pos: 0 }
    }
}

impl IoBase for MemDev {
    type Error = DevErr;
}

impl Read for MemDev {
    fn read(&mut self, buf: &mut [u8]) -> Result<usize, DevErr> {
        let mut st = self.st.borrow_mut();
        st.pre_call(Kind::Read)?;
        let want = st.short_len_at(buf.len(), self.pos);
        let avail = st.len.saturating_sub(self.pos);
        let n = (want as u64).min(avail) as usize;
        st.rec(Kind::Read, self.pos, n, None);
        if n > 0 {
            st.read_at(self.pos, &mut buf[..n]);
            st.max_addr = st.max_addr.max(self.pos + n as u64);
        }
        self.pos += n as u64;
        Ok(n)
    }
}

impl Write for MemDev {
    fn write(&mut self, buf: &[u8]) -> Result<usize, DevErr> {
        let mut st = self.st.borrow_mut();
        st.pre_call(Kind::Write)?;
        let want = st.short_len_at(buf.len(), self.pos);
        let avail = st.len.saturating_sub(self.pos);
        if (want as u64) > avail {
            st.oob_write = true;
        }
        let n = (want as u64).min(avail) as usize;
        st.rec(Kind::Write, self.pos, n, Some(&buf[..n]));
        st.n_writes += 1;
        if n > 0 {
            let pos = self.pos;
            st.write_at(pos, &buf[..n]);
            st.max_addr = st.max_addr.max(pos + n as u64);
        }
        self.pos += n as u64;
        Ok(n)
    }

    fn flush(&mut self) -> Result<(), DevErr> {
        let mut st = self.st.borrow_mut();
        st.pre_call(Kind::Flush)?;
        st.rec(Kind::Flush, 0, 0, None);
        st.n_flushes += 1;
        Ok(())
    }
}

impl Seek for MemDev {
    fn seek(&mut self, pos: SeekFrom) -> Result<u64, DevErr> {
        let mut st = self.st.borrow_mut();
        st.pre_call(Kind::Seek)?;
        let new = match pos {
            SeekFrom::Start(x) => Some(x),
            SeekFrom::Current(d) => (self.pos as i128 + d as i128).try_into().ok(),
            SeekFrom::End(d) => (st.len as i128 + d as i128).try_into().ok(),
        };
        let Some(new) = new else {
            return Err(DevErr { id: ID_NEG_SEEK });
        };
        st.rec(Kind::Seek, new, 0, None);
        self.pos = new;
        Ok(new)
    }
}

pub fn new_dev(base: &Arc<Base>) -> (Rc<RefCell<DevState>>, MemDev) {
    let st = Rc::new(RefCell::new(DevState::new(base.clone())));
    let dev = MemDev::new(st.clone());
    (st, dev)
}
