//! Volume configurations: library-formatted volumes, optionally turned into tiny working sets by
//! marking all but a few clusters bad ("ballast").

use std::sync::Arc;

use fatfs::{FatType, FormatVolumeOptions};

use crate::decoder::{self, Geo};
use crate::dev::{new_dev, Base, DevState};
use crate::sess::Cfg;

pub fn format_image(total_sectors: u32, bps: u16, opts: FormatVolumeOptions, tail: u64) -> Result<Vec<u8>, String> {
    format_image_over(total_sectors, bps, opts, tail, 0)
}

/// format over a medium whose every byte is `fill` (a used medium: whatever formatting must initialise but does not shows)
pub fn format_image_over(total_sectors: u32, bps: u16, opts: FormatVolumeOptions, tail: u64, fill: u8) -> Result<Vec<u8>, String> {
    let len = total_sectors as u64 * bps as u64 + tail;
    let base = Arc::new(Base::Bytes(vec![fill; len as usize]));
    let (st, mut dev) = new_dev(&base);
    let opts = opts.bytes_per_sector(bps).total_sectors(total_sectors);
    fatfs::format_volume(&mut dev, opts).map_err(|e| format!("format failed: {e:?}"))?;
    let img = st.borrow().image();
    Ok(img)
}

pub fn geo_of(img: &[u8]) -> Geo {
    decoder::parse_raw(&img[..512]).expect("geometry")
}

/// write FAT entry `c` := `val` in every FAT copy of a byte image
pub fn set_fat(img: &mut [u8], g: &Geo, c: u32, val: u32) {
    for copy in 0..g.nfats {
        let (off, _) = g.fat_entry_off(copy, c);
        let off = off as usize;
        match g.width {
            12 => {
                let w = u16::from_le_bytes([img[off], img[off + 1]]);
                let nw = if c & 1 == 0 { (w & 0xF000) | (val as u16 & 0x0FFF) } else { (w & 0x000F) | ((val as u16) << 4) };
                img[off..off + 2].copy_from_slice(&nw.to_le_bytes());
            }
            16 => img[off..off + 2].copy_from_slice(&(val as u16).to_le_bytes()),
            _ => {
                let old = u32::from_le_bytes([img[off], img[off + 1], img[off + 2], img[off + 3]]);
                let nv = (old & 0xF000_0000) | (val & 0x0FFF_FFFF);
                img[off..off + 4].copy_from_slice(&nv.to_le_bytes());
            }
        }
    }
}

pub fn get_fat(img: &[u8], g: &Geo, copy: u32, c: u32) -> u32 {
    let (off, _) = g.fat_entry_off(copy, c);
    let off = off as usize;
    match g.width {
        12 => {
            let w = u16::from_le_bytes([img[off], img[off + 1]]);
            (if c & 1 == 0 { w & 0x0FFF } else { w >> 4 }) as u32
        }
        16 => u16::from_le_bytes([img[off], img[off + 1]]) as u32,
        _ => u32::from_le_bytes([img[off], img[off + 1], img[off + 2], img[off + 3]]) & 0x0FFF_FFFF,
    }
}

/// mark every free cluster except `keep_free` as bad; fix the fs-info sector
pub fn ballast(img: &mut [u8], keep_free: &[u32]) {
    let g = geo_of(img);
    let bad = g.bad_mark();
    let mut free = 0u32;
    for c in 2..=g.max_cluster() {
        if get_fat(img, &g, 0, c) == 0 {
            if keep_free.contains(&c) {
                free += 1;
            } else {
                set_fat(img, &g, c, bad);
            }
        }
    }
    if g.width == 32 {
        let o = (g.fsinfo_sector as u64 * g.bps as u64) as usize;
        img[o + 488..o + 492].copy_from_slice(&free.to_le_bytes());
    }
}

pub fn set_fsinfo(img: &mut [u8], free: Option<u32>, next: Option<u32>) {
    let g = geo_of(img);
    if g.width != 32 {
        return;
    }
    let o = (g.fsinfo_sector as u64 * g.bps as u64) as usize;
    if let Some(f) = free {
        img[o + 488..o + 492].copy_from_slice(&f.to_le_bytes());
    }
    if let Some(n) = next {
        img[o + 492..o + 496].copy_from_slice(&n.to_le_bytes());
    }
}

pub fn set_status(img: &mut [u8], status: u8) {
    let g = geo_of(img);
    img[g.status_off as usize] = status;
    if g.width == 32 && g.backup_sector != 0 {
        // the backup copy is left as formatted on purpose (the library never reads it)
    }
}

/// FAT16/FAT32 keep a second copy of the volume status in FAT entry 1 (clean-shutdown bit and hard-error bit,
/// both set on a healthy volume): clear the chosen bits in every FAT copy, leave the boot-sector byte alone
pub fn set_fat1_flags(img: &mut [u8], dirty: bool, io_error: bool) {
    let g = geo_of(img);
    let (clean_bit, err_bit, nbytes) = match g.width {
        16 => (0x8000u32, 0x4000u32, 2usize),
        32 => (0x0800_0000, 0x0400_0000, 4),
        _ => return,
    };
    for c in 0..g.nfats {
        let off = g.fat_off(c) as usize + nbytes;
        let mut b = [0u8; 4];
        b[..nbytes].copy_from_slice(&img[off..off + nbytes]);
        let mut v = u32::from_le_bytes(b);
        if dirty {
            v &= !clean_bit;
        }
        if io_error {
            v &= !err_bit;
        }
        img[off..off + nbytes].copy_from_slice(&v.to_le_bytes()[..nbytes]);
    }
}

/// find a total sector count for which the library formats exactly `clusters` clusters
pub fn find_total(bps: u16, clusters: u64, mk: &dyn Fn() -> FormatVolumeOptions, lo: u32, hi: u32) -> Option<u32> {
    for total in lo..hi {
        if let Ok(img) = format_image(total, bps, mk(), 0) {
            let g = geo_of(&img);
            if g.clusters == clusters {
                return Some(total);
            }
            if g.clusters > clusters + 64 {
                return None;
            }
        }
    }
    None
}

#[derive(Clone, Debug)]
pub struct VolSpec {
    pub name: String,
    pub fat: FatType,
    pub bps: u16,
    pub spc: u32,
    pub fats: u8,
    pub root_entries: u16,
    /// desired number of clusters (None: minimal for the width)
    pub clusters: Option<u64>,
    /// number of clusters left free (None: all)
    pub free: Option<usize>,
    pub tail: u64,
}

pub fn build(spec: &VolSpec) -> Result<(Vec<u8>, Option<Vec<u32>>), String> {
    build_with(spec, &|o| o)
}

/// like `build`, with further format options (media byte, label, ...) applied on top of the geometry
pub fn build_with(spec: &VolSpec, extra: &dyn Fn(FormatVolumeOptions) -> FormatVolumeOptions) -> Result<(Vec<u8>, Option<Vec<u32>>), String> {
    build_over(spec, extra, 0)
}

/// like `build_with`, formatted over a medium filled with `fill`
pub fn build_over(spec: &VolSpec, extra: &dyn Fn(FormatVolumeOptions) -> FormatVolumeOptions, fill: u8) -> Result<(Vec<u8>, Option<Vec<u32>>), String> {
    let mk = || {
        extra(
            FormatVolumeOptions::new()
                .fat_type(spec.fat)
                .bytes_per_cluster(spec.bps as u32 * spec.spc)
                .fats(spec.fats)
                .max_root_dir_entries(spec.root_entries),
        )
    };
    let want = spec.clusters.unwrap_or(match spec.fat {
        FatType::Fat12 => 20,
        FatType::Fat16 => 4085,
        FatType::Fat32 => 65525,
    });
    // estimate total sectors then search around it
    let est = (want * spec.spc as u64) as u32;
    let lo = est.saturating_sub(8).max(1);
    let hi = est + (est / 64) + 4096;
    let mut total = None;
    for t in lo..hi {
        match format_image_geo_only(t, spec.bps, mk()) {
            Some(c) if c == want => {
                total = Some(t);
                break;
            }
            Some(c) if c > want + 2 * spec.spc as u64 => break,
            _ => {}
        }
    }
    let total = total.ok_or_else(|| format!("no total sector count gives {want} clusters for {}", spec.name))?;
    let mut img = format_image_over(total, spec.bps, mk(), spec.tail, fill)?;
    let g = geo_of(&img);
    if spec.tail > 0 {
        let end = g.volume_end() as usize;
        for b in &mut img[end..] {
            *b = 0xCD;
        }
    }
    let mut cands = None;
    if let Some(nfree) = spec.free {
        let keep = pick_free(&g, &img, nfree);
        ballast(&mut img, &keep);
        let mut c = keep.clone();
        if g.width == 32 {
            c.push(g.root_cluster);
        }
        cands = Some(c);
    }
    Ok((img, cands))
}

/// cluster count the library would produce, via the boot-sector hook (no format I/O)
fn format_image_geo_only(total: u32, bps: u16, opts: FormatVolumeOptions) -> Option<u64> {
    let opts = opts.bytes_per_sector(bps).total_sectors(total);
    let b = fatfs::verif::boot_sector_bytes(&opts, total).ok()?;
    decoder::parse_raw(&b).ok().map(|g| g.clusters)
}

/// free set: a few at the start, a few in the middle, and the very last cluster
pub fn pick_free(g: &Geo, img: &[u8], n: usize) -> Vec<u32> {
    let free: Vec<u32> = (2..=g.max_cluster()).filter(|c| get_fat(img, g, 0, *c) == 0).collect();
    if n == 0 {
        return Vec::new();
    }
    if free.len() <= n {
        return free;
    }
    let mut v = Vec::new();
    let a = n / 2;
    let b = n - a - 1;
    v.extend_from_slice(&free[..a]);
    let mid = free.len() / 2;
    v.extend_from_slice(&free[mid..mid + b]);
    v.push(*free.last().unwrap());
    v.sort();
    v.dedup();
    v
}

pub fn cfg_from(name: &str, img: Vec<u8>, cands: Option<Vec<u32>>) -> Cfg {
    let mut c = Cfg::new(name, Arc::new(Base::Bytes(img)));
    c.candidates = cands.map(Arc::new);
    c
}

pub fn tiny(fat: FatType) -> Cfg {
    tiny_with(fat, if fat == FatType::Fat12 { 20 } else { 12 }, 16)
}

/// tiny working volume with `nfree` free clusters and a `root_entries`-slot fixed root (FAT12/16)
pub fn tiny_with(fat: FatType, nfree: usize, root_entries: u16) -> Cfg {
    let mut spec = tiny_spec(fat);
    match fat {
        FatType::Fat12 => spec.clusters = Some(nfree as u64),
        _ => spec.free = Some(nfree),
    }
    if fat != FatType::Fat32 {
        spec.root_entries = root_entries;
    }
    spec.name = format!("{}-f{}-r{}", spec.name, nfree, spec.root_entries);
    let (img, cands) = build(&spec).expect("tiny volume");
    cfg_from(&spec.name, img, cands)
}

/// like `tiny_with`, but FAT12 volumes also get ballast: ten clusters of which `nfree` are free (for nfree < 7)
pub fn tiny_low(fat: FatType, nfree: usize, root_entries: u16) -> Cfg {
    let mut spec = tiny_spec(fat);
    if fat == FatType::Fat12 {
        spec.clusters = Some(10);
    }
    spec.free = Some(nfree);
    if fat != FatType::Fat32 {
        spec.root_entries = root_entries;
    }
    spec.name = format!("{}-low{}-r{}", spec.name, nfree, spec.root_entries);
    let (img, cands) = build(&spec).expect("tiny low volume");
    cfg_from(&spec.name, img, cands)
}

/// FAT32 volume with 66 000 clusters whose free clusters all lie above 0xFFFF (0x10000..=0x10005 and the last two):
/// every cluster number handed out needs the high word of the directory entry's first-cluster field, the first of
/// them (0x10000) has a zero low word
pub fn t32_high() -> Cfg {
    let spec = VolSpec { name: "t32-high".into(), fat: FatType::Fat32, bps: 512, spc: 1, fats: 2, root_entries: 0, clusters: Some(66_000), free: None, tail: 0 };
    let (mut img, _) = build(&spec).expect("t32-high");
    let g = geo_of(&img);
    let last = g.max_cluster();
    let keep: Vec<u32> = vec![0x1_0000, 0x1_0001, 0x1_0002, 0x1_0003, 0x1_0004, 0x1_0005, last - 1, last];
    ballast(&mut img, &keep);
    set_fsinfo(&mut img, None, Some(0xFFF0));
    let mut c = keep.clone();
    c.push(g.root_cluster);
    cfg_from(&spec.name, img, Some(c))
}

pub fn tiny_spec(fat: FatType) -> VolSpec {
    match fat {
        FatType::Fat12 => VolSpec {
            name: "t12".into(),
            fat,
            bps: 512,
            spc: 1,
            fats: 2,
            root_entries: 16,
            clusters: Some(20),
            free: None,
            tail: 0,
        },
        FatType::Fat16 => VolSpec {
            name: "t16".into(),
            fat,
            bps: 512,
            spc: 1,
            fats: 2,
            root_entries: 16,
            clusters: Some(4085),
            free: Some(12),
            tail: 0,
        },
        FatType::Fat32 => VolSpec {
            name: "t32".into(),
            fat,
            bps: 512,
            spc: 1,
            fats: 2,
            root_entries: 0,
            clusters: Some(65525),
            free: Some(12),
            tail: 0,
        },
    }
}

/// Decode helper for harness self-tests.
pub fn decode_image(img: &[u8]) -> Result<decoder::Decoded, String> {
    let st = DevState::new(Arc::new(Base::Bytes(img.to_vec())));
    decoder::decode(&st, &decoder::DecodeOpts::default())
}
