//! Oracles evaluated on one execution (the last step of a replayed history + its observation suffix).
//! Every oracle returns (signature, message) pairs; signatures name *what* went wrong, never the history.

use std::collections::BTreeMap;

use crate::decoder::{Decoded, Region};
use crate::dev::Kind;
use crate::explore::op_kind;
use crate::model::{ErrKind, MKind, Model, Nid, ROOT};
use crate::sess::{dir_room, Exec, LibTree, Op, Out, SeekSpec, SpaceNeed};

pub type V = Vec<(String, String)>;

fn push(v: &mut V, sig: String, msg: String) {
    v.push((sig, msg));
}

fn errs(v: &[ErrKind]) -> String {
    let mut s: Vec<String> = v.iter().map(|e| e.name()).collect();
    s.sort();
    s.dedup();
    s.join("|")
}

/// Is a NotEnoughSpace result admissible given the independently decoded pre-state?
pub fn space_admissible(ex: &Exec, need: &Option<SpaceNeed>, op: &Op) -> bool {
    let Some(Ok(pre)) = &ex.pre else { return true };
    let free = pre.free;
    let cs = pre.geo.cluster_size();
    match need {
        None => false,
        Some(SpaceNeed::Data) => {
            if free != 0 {
                return false;
            }
            // the write needs a new cluster only at the end of the allocated chain
            let h = match op {
                Op::Write { h, .. } | Op::WriteAll { h, .. } | Op::Fill { h, .. } => *h as usize,
                _ => return true,
            };
            let Some(hd) = &ex.model_pre.fh[h] else { return true };
            let len = ex.model_pre.nodes[&hd.nid].data.len() as u64;
            let allocated = (len + cs - 1) / cs * cs;
            hd.pos == allocated
        }
        Some(SpaceNeed::Entry { dir, units, extra }) => {
            let needed = (*units + 12) / 13 + 1;
            let path = ex.model_pre.path_of(*dir);
            let Some(d) = pre.dir_by_path(&path) else { return true };
            let (fits, missing) = dir_room(d, needed);
            let fixed_root = pre.geo.width != 32 && *dir == ROOT;
            if fixed_root {
                !fits || free < *extra as u64
            } else {
                let grow = ((missing as u64 * 32) + cs - 1) / cs;
                free < grow + *extra as u64
            }
        }
    }
}

/// C01/C02: result of the last call against the reference model.
pub fn o_result(prop: &str, ops: &[Op], ex: &Exec) -> V {
    let mut v = V::new();
    let Some(op) = ops.last() else { return v };
    let i = ops.len() - 1;
    let (Some(res), Some(exp)) = (ex.outs.get(i), ex.expects.get(i)) else { return v };
    if ex.panic.is_some() {
        return v;
    }
    let kind = op_kind(op);
    let m = &ex.model_pre;
    match res {
        Err(k) => {
            if k.is_io() {
                if ex.budget_hit {
                    // the call used up the device-call budget of the run (a hang, or an extremely long scan): the
                    // device then refuses every call, which is what the caller saw
                    push(&mut v, format!("{prop}/device-call-budget-exhausted/{kind}"), format!("{op:?}: more than {} device calls", ex.calls_last));
                } else if ex.fired.is_none() {
                    push(&mut v, format!("{prop}/result/{kind}/io-error-without-fault"), format!("{op:?} -> {k:?}"));
                }
            } else if exp.must.contains(k) || exp.may.contains(k) || exp.undocumented {
            } else if *k == ErrKind::NotEnoughSpace && space_admissible(ex, &exp.space, op) {
            } else {
                let want = if exp.must.is_empty() { "success".to_string() } else { errs(&exp.must) };
                push(
                    &mut v,
                    format!("{prop}/result/{kind}/got-{}/want-{want}", k.name()),
                    format!("{op:?} returned {k:?}; model expects {want} (may: {})", errs(&exp.may)),
                );
            }
        }
        Ok(out) => {
            if !exp.must.is_empty() && !exp.undocumented {
                push(
                    &mut v,
                    format!("{prop}/result/{kind}/got-Ok/want-{}", errs(&exp.must)),
                    format!("{op:?} succeeded; model expects failure with {}", errs(&exp.must)),
                );
                return v;
            }
            match (op, out) {
                (Op::Write { h, len }, Out::Count(n)) => {
                    let _ = h;
                    if (*len == 0 && *n != 0) || (*len > 0 && (*n == 0 || *n > *len as u64)) {
                        push(&mut v, format!("{prop}/result/write/count-out-of-range"), format!("{op:?} -> {n}"));
                    }
                }
                (Op::WriteAll { len, .. }, Out::Progress { accepted, err }) => match err {
                    None => {
                        if *accepted != *len as u64 {
                            push(&mut v, format!("{prop}/result/write_all/short-without-error"), format!("{op:?} -> {accepted}"));
                        }
                    }
                    Some(e) => check_progress_err(prop, kind, op, *accepted, *e, ex, &mut v),
                },
                (Op::Fill { .. }, Out::Progress { accepted, err }) => {
                    if let Some(e) = err {
                        check_progress_err(prop, kind, op, *accepted, *e, ex, &mut v);
                    }
                }
                (Op::Read { h, len }, Out::Bytes(b)) | (Op::ReadExact { h, len }, Out::Bytes(b)) => {
                    let hd = m.fh[*h as usize].as_ref().unwrap();
                    let data = &m.nodes[&hd.nid].data;
                    let remaining = data.len() as u64 - hd.pos.min(data.len() as u64);
                    let max = (*len as u64).min(remaining);
                    let exact = matches!(op, Op::ReadExact { .. });
                    let n = b.len() as u64;
                    // (a read_exact that reaches beyond the end fails; how much it has consumed by then is unspecified)
                    let exact_eof = exact && (*len as u64) > remaining;
                    if n > max || (max > 0 && n == 0 && !exact_eof) || (exact && !exact_eof && n != max) {
                        push(
                            &mut v,
                            format!("{prop}/result/{kind}/count"),
                            format!("{op:?} at pos {} of {} returned {n} bytes (max {max})", hd.pos, data.len()),
                        );
                    } else if b[..] != data[hd.pos as usize..(hd.pos + n) as usize] {
                        let first = b.iter().zip(&data[hd.pos as usize..]).position(|(a, b)| a != b).unwrap_or(0);
                        push(
                            &mut v,
                            format!("{prop}/result/{kind}/wrong-bytes"),
                            format!("{op:?} at pos {}: first mismatch at +{first}", hd.pos),
                        );
                    }
                }
                (Op::Seek { h, pos }, Out::Pos(p)) => {
                    let hd = m.fh[*h as usize].as_ref().unwrap();
                    let size = m.nodes[&hd.nid].data.len() as i128;
                    let target: i128 = match pos {
                        SeekSpec::Start(x) => *x as i128,
                        SeekSpec::Current(d) => hd.pos as i128 + *d as i128,
                        SeekSpec::End(d) => size + *d as i128,
                    };
                    let want = target.min(size);
                    if target >= 0 && *p as i128 != want {
                        push(
                            &mut v,
                            format!("{prop}/result/seek/wrong-position"),
                            format!("{op:?} from {} (size {size}) returned {p}, expected {want}", hd.pos),
                        );
                    }
                }
                (Op::List { base, path }, Out::Listing(l)) | (Op::ListOne { base, path }, Out::Listing(l)) => {
                    let b = match base {
                        crate::sess::DirRef::Root => ROOT,
                        crate::sess::DirRef::H(i) => m.dh[*i as usize].as_ref().unwrap().nid,
                    };
                    let target = if crate::model::split(path).is_empty() {
                        Some(b)
                    } else if let crate::model::Resolve::Found(n) = m.resolve(b, path) {
                        Some(n)
                    } else {
                        None
                    };
                    if let Some(t) = target {
                        check_listing(prop, kind, m, t, l, matches!(op, Op::ListOne { .. }), &mut v);
                    }
                }
                _ => {}
            }
        }
    }
    v
}

fn check_progress_err(prop: &str, kind: &str, op: &Op, accepted: u64, e: ErrKind, ex: &Exec, v: &mut V) {
    if e.is_io() && ex.fired.is_some() {
        return;
    }
    let full = matches!(&ex.post, Some(Ok(p)) if p.free == 0);
    if !(e == ErrKind::NotEnoughSpace && full) {
        push(
            v,
            format!("{prop}/result/{kind}/partial-{}", e.name()),
            format!("{op:?} stopped after {accepted} bytes with {e:?} (volume full: {full})"),
        );
    }
}

fn check_listing(prop: &str, kind: &str, m: &Model, dir: Nid, l: &[crate::sess::ListEntry], one: bool, v: &mut V) {
    let Some(ch) = m.children(dir) else { return };
    let mut want: BTreeMap<String, Nid> = BTreeMap::new();
    for n in ch.values() {
        want.insert(m.nodes[n].given.clone(), *n);
    }
    let is_root = dir == ROOT;
    let mut got: BTreeMap<String, &crate::sess::ListEntry> = BTreeMap::new();
    for e in l {
        if !is_root && (e.name == "." || e.name == "..") {
            continue;
        }
        if got.insert(e.name.clone(), e).is_some() {
            push(v, format!("{prop}/result/{kind}/duplicate-name"), format!("listing has {} twice", e.name));
        }
    }
    if one {
        for name in got.keys() {
            if !want.contains_key(name) {
                push(v, format!("{prop}/result/{kind}/unknown-entry"), format!("listing has {name}, model has {:?}", want.keys()));
            }
        }
        return;
    }
    if got.keys().ne(want.keys()) {
        push(
            v,
            format!("{prop}/result/{kind}/names-differ"),
            format!("listing {:?} != model {:?}", got.keys().collect::<Vec<_>>(), want.keys().collect::<Vec<_>>()),
        );
        return;
    }
    for (name, e) in &got {
        let n = want[name];
        let node = &m.nodes[&n];
        let is_dir = matches!(node.kind, MKind::Dir(_));
        if e.is_dir != is_dir {
            push(v, format!("{prop}/result/{kind}/kind-differs"), format!("{name}: listed dir={} model dir={is_dir}", e.is_dir));
        }
        let live_dirty = m.fh.iter().flatten().any(|h| h.nid == n && h.dirty);
        if !is_dir && !live_dirty && e.len != node.data.len() as u64 {
            push(v, format!("{prop}/result/{kind}/size-differs"), format!("{name}: listed {} model {}", e.len, node.data.len()));
        }
        // the long-name units, where an entry has any, are the name (an entry whose name is exactly its 8.3 form needs
        // no long-name slots: that it is listed under the right name has been established above)
        let units: Vec<u16> = name.encode_utf16().collect();
        if e.units.as_deref().map_or(false, |u| u != &units[..]) {
            push(v, format!("{prop}/result/{kind}/units-differ"), format!("{name}: units {:?}", e.units));
        }
    }
}

/// Compare an independently decoded tree with the model. `strict`: no live-handle relaxation.
pub fn cmp_decoded(tag: &str, m: &Model, d: &Decoded, strict: bool, v: &mut V) {
    let want = m.flat();
    let got = d.flat();
    let wk: Vec<&String> = want.keys().collect();
    let gk: Vec<&String> = got.keys().collect();
    if wk != gk {
        let missing: Vec<&&String> = wk.iter().filter(|k| !got.contains_key(**k)).collect();
        let extra: Vec<&&String> = gk.iter().filter(|k| !want.contains_key(**k)).collect();
        let class = match (missing.is_empty(), extra.is_empty()) {
            (false, true) => "entries-lost",
            (true, false) => "entries-appeared",
            _ => "entries-differ",
        };
        push(v, format!("{tag}/{class}"), format!("missing {missing:?} extra {extra:?}"));
        return;
    }
    for (p, (is_dir, data)) in &want {
        let g = &got[p];
        if g.is_dir != *is_dir {
            push(v, format!("{tag}/kind-differs"), format!("{p}: decoded dir={} model dir={is_dir}", g.is_dir));
            continue;
        }
        if *is_dir {
            continue;
        }
        let nid = m.nodes.iter().find(|(id, _)| m.path_of(**id) == *p).map(|(id, _)| *id);
        let live_dirty = !strict && nid.map_or(false, |n| m.fh.iter().flatten().any(|h| h.nid == n && h.dirty));
        if live_dirty {
            continue;
        }
        if g.size as usize != data.len() {
            push(v, format!("{tag}/size-differs"), format!("{p}: on disk {} model {}", g.size, data.len()));
        } else if g.content.as_deref() != Some(&data[..]) {
            let first = g.content.as_ref().map(|c| c.iter().zip(data).position(|(a, b)| a != b));
            push(v, format!("{tag}/content-differs"), format!("{p}: first mismatch at {first:?} of {}", data.len()));
        }
    }
}

pub fn cmp_libtree(tag: &str, m: &Model, t: &LibTree, v: &mut V) {
    let want = m.flat();
    let wk: Vec<&String> = want.keys().collect();
    let gk: Vec<&String> = t.keys().collect();
    if wk != gk {
        let missing: Vec<&&String> = wk.iter().filter(|k| !t.contains_key(**k)).collect();
        let extra: Vec<&&String> = gk.iter().filter(|k| !want.contains_key(**k)).collect();
        let class = match (missing.is_empty(), extra.is_empty()) {
            (false, true) => "entries-lost",
            (true, false) => "entries-appeared",
            _ => "entries-differ",
        };
        push(v, format!("{tag}/{class}"), format!("missing {missing:?} extra {extra:?}"));
        return;
    }
    for (p, (is_dir, data)) in &want {
        let g = &t[p];
        if g.is_dir != *is_dir {
            push(v, format!("{tag}/kind-differs"), format!("{p}"));
        } else if !*is_dir {
            if g.len as usize != data.len() {
                push(v, format!("{tag}/size-differs"), format!("{p}: listed {} model {}", g.len, data.len()));
            } else if g.content.as_deref() != Some(&data[..]) {
                push(v, format!("{tag}/content-differs"), format!("{p}"));
            }
        }
    }
}

/// C01: tree at the call boundary equals the model; a failed call changes nothing.
pub fn o_tree_boundary(prop: &str, ops: &[Op], ex: &Exec) -> V {
    let mut v = V::new();
    if ex.panic.is_some() || !ex.completed {
        return v;
    }
    match &ex.post {
        Some(Ok(d)) => {
            cmp_decoded(&format!("{prop}/tree-at-boundary/{}", ops.last().map_or("init", op_kind)), &ex.model, d, false, &mut v);
            // a failed (non-I/O) call leaves free space as it was
            if let (Some(Err(k)), Some(Ok(pre))) = (ex.outs.last(), &ex.pre) {
                if !k.is_io() && pre.free != d.free {
                    push(
                        &mut v,
                        format!("{prop}/failed-call-changed-free-space/{}", ops.last().map_or("init", op_kind)),
                        format!("{:?} failed with {k:?}: free clusters {} -> {}", ops.last(), pre.free, d.free),
                    );
                }
            }
        }
        Some(Err(e)) => push(&mut v, format!("{prop}/decode-failed"), e.clone()),
        None => {}
    }
    v
}

/// C01/C04: after flushing handles the independent decode, the library listing, the abandon copy,
/// the final image and the remounted listing all equal the model.
pub fn o_tree_suffix(prop: &str, ex: &Exec, with_remount: bool) -> V {
    let mut v = V::new();
    if ex.panic.is_some() || !ex.completed {
        return v;
    }
    let sx = &ex.suffix;
    for (si, r) in &sx.flush_results {
        if let Err(e) = r {
            push(&mut v, format!("{prop}/suffix/flush-failed"), format!("flush of handle {si}: {e:?}"));
        }
    }
    // what the independent decoder says about links is part of the tree that the views have to agree on: the dot
    // entries of every directory (I3) and the termination / ownership of every chain the tree is read through (I1)
    {
        for (stage, d) in [("decode-after-flush", &sx.flushed), ("abandoned-image", &sx.abandoned), ("decode-after-unmount", &sx.final_decoded)] {
            if let Some(Ok(d)) = d {
                for f in &d.findings {
                    if f.sig.starts_with("I3/") || f.sig == "I1/file-chain" || f.sig == "I1/dir-chain" || f.sig == "I1/owned-but-free" {
                        push(&mut v, format!("{prop}/{stage}/link/{}", f.sig), f.msg.clone());
                    }
                }
            }
        }
    }
    match &sx.flushed {
        Some(Ok(d)) => cmp_decoded(&format!("{prop}/decode-after-flush"), &ex.model, d, true, &mut v),
        Some(Err(e)) => push(&mut v, format!("{prop}/decode-after-flush/failed"), e.clone()),
        None => {}
    }
    match &sx.lib_tree {
        Some(Ok(t)) => cmp_libtree(&format!("{prop}/listing-after-flush"), &ex.model, t, &mut v),
        Some(Err(e)) => push(&mut v, format!("{prop}/listing-after-flush/failed"), e.clone()),
        None => {}
    }
    if with_remount {
        match &sx.abandoned {
            Some(Ok(d)) => cmp_decoded(&format!("{prop}/abandoned-image"), &ex.model, d, true, &mut v),
            Some(Err(e)) => push(&mut v, format!("{prop}/abandoned-image/decode-failed"), e.clone()),
            None => {}
        }
        if let Some(Err(e)) = &sx.unmount {
            push(&mut v, format!("{prop}/unmount-failed"), format!("{e:?}"));
        }
        match &sx.final_decoded {
            Some(Ok(d)) => cmp_decoded(&format!("{prop}/decode-after-unmount"), &ex.model, d, true, &mut v),
            Some(Err(e)) => push(&mut v, format!("{prop}/decode-after-unmount/failed"), e.clone()),
            None => {}
        }
        // attributes: what the session listed == what the remount lists == what the decoder finds
        if let (Some(Ok(a)), Some(Ok(b)), Some(Ok(d))) = (&sx.lib_tree, &sx.remount_tree, &sx.final_decoded) {
            let flat = d.flat();
            for (p, n) in a {
                if let Some(m) = b.get(p) {
                    if m.attr != n.attr {
                        push(&mut v, format!("{prop}/remount-listing/attributes-differ"), format!("{p}: {:#x} in the session, {:#x} after remount", n.attr, m.attr));
                    }
                }
                if let Some(m) = flat.get(p) {
                    if m.attr & 0x3F != n.attr {
                        push(&mut v, format!("{prop}/decode-after-unmount/attributes-differ"), format!("{p}: {:#x} in the session, {:#x} on disk", n.attr, m.attr));
                    }
                    if !n.is_dir && m.short != n.short {
                        push(&mut v, format!("{prop}/decode-after-unmount/short-name-differs"), format!("{p}: {:?} in the session, {:?} on disk", n.short, m.short));
                    }
                }
            }
        }
        match &sx.remount_tree {
            Some(Ok(t)) => cmp_libtree(&format!("{prop}/remount-listing"), &ex.model, t, &mut v),
            Some(Err(e)) => push(&mut v, format!("{prop}/remount-listing/failed"), e.clone()),
            None => {}
        }
        // the parent links are part of the tree: a directory reached through the `..` entry of one of its
        // subdirectories is the directory that lists that subdirectory (same session and after the remount)
        for (what, views, tree) in [("session", &sx.dotdot_session, &sx.lib_tree), ("remount", &sx.dotdot_remount, &sx.remount_tree)] {
            let (Some(views), Some(Ok(tree))) = (views, tree) else { continue };
            for (p, r) in views {
                let parent = match p.rfind('/') {
                    Some(0) | None => "/".to_string(),
                    Some(i) => p[..i].to_string(),
                };
                let mut want: Vec<String> = tree
                    .keys()
                    .filter(|k| {
                        let kp = match k.rfind('/') {
                            Some(0) | None => "/",
                            Some(i) => &k[..i],
                        };
                        kp == parent
                    })
                    .map(|k| k[k.rfind('/').map_or(0, |i| i + 1)..].to_string())
                    .collect();
                want.sort();
                match r {
                    Ok(names) if *names == want => {}
                    Ok(names) => push(&mut v, format!("{prop}/{what}-listing/parent-link-leads-elsewhere"), format!("{p}/.. lists {names:?}; the directory that holds {p} lists {want:?}")),
                    Err(e) => push(&mut v, format!("{prop}/{what}-listing/parent-link-unusable"), e.clone()),
                }
            }
        }
    }
    v
}

/// C04(c): device bytes at File::extents ranges reproduce the content (handle's view).
pub fn o_extents(prop: &str, ex: &Exec) -> V {
    let mut v = V::new();
    if ex.panic.is_some() || !ex.completed {
        return v;
    }
    for (si, nid, r, bytes) in &ex.suffix.extents {
        let Some(node) = ex.model.nodes.get(nid) else { continue };
        match r {
            Ok(ext) => {
                let total: u64 = ext.iter().map(|e| e.1 as u64).sum();
                if total != node.data.len() as u64 {
                    push(&mut v, format!("{prop}/extents/total-size"), format!("handle {si}: extents cover {total}, file has {}", node.data.len()));
                } else if bytes[..] != node.data[..] {
                    push(&mut v, format!("{prop}/extents/content"), format!("handle {si}: device bytes at extents differ from content"));
                }
            }
            Err(e) => push(&mut v, format!("{prop}/extents/error"), format!("handle {si}: {e:?}")),
        }
    }
    v
}

/// C03: structural invariants at the call boundary, after flush and after unmount.
pub fn o_invariants(prop: &str, ops: &[Op], ex: &Exec) -> V {
    let mut v = V::new();
    if ex.panic.is_some() || !ex.completed {
        return v;
    }
    let kind = ops.last().map_or("init", op_kind);
    let outcome = match ex.outs.last() {
        Some(Ok(_)) | None => "ok".to_string(),
        Some(Err(e)) => {
            if e.is_io() {
                "Io".into()
            } else {
                e.name()
            }
        }
    };
    let mut seen = std::collections::BTreeSet::new();
    let mut feed = |stage: &str, d: &Option<Result<Decoded, String>>, v: &mut V| match d {
        Some(Ok(d)) => {
            for f in &d.findings {
                if seen.insert(f.sig.clone()) {
                    push(v, format!("{prop}/{}/after-{kind}-{outcome}", f.sig), format!("[{stage}] {}", f.msg));
                }
            }
        }
        Some(Err(e)) => push(v, format!("{prop}/undecodable/{stage}"), e.clone()),
        None => {}
    };
    feed("boundary", &ex.post, &mut v);
    feed("after-flush", &ex.suffix.flushed, &mut v);
    feed("after-unmount", &ex.suffix.final_decoded, &mut v);
    v
}

/// C05: stats() == free entries in the FAT; fs-info after unmount; (NotEnoughSpace is in o_result).
pub fn o_free_space(prop: &str, ops: &[Op], ex: &Exec) -> V {
    let mut v = V::new();
    if ex.panic.is_some() || !ex.completed {
        return v;
    }
    let Some(Ok(post)) = &ex.post else { return v };
    if let Some(Ok(Out::Stats { free, total, cs })) = ex.outs.last() {
        if *free as u64 != post.free {
            push(&mut v, format!("{prop}/stats-op/free-count"), format!("stats() says {free}, FAT has {} free", post.free));
        }
        if *total as u64 != post.geo.clusters || *cs as u64 != post.geo.cluster_size() {
            push(&mut v, format!("{prop}/stats-op/geometry"), format!("total {total} cs {cs} vs {} / {}", post.geo.clusters, post.geo.cluster_size()));
        }
    }
    match &ex.suffix.stats_free {
        Some(Ok(f)) => {
            if *f as u64 != post.free {
                push(
                    &mut v,
                    format!("{prop}/stats/free-count/after-{}", ops.last().map_or("init", op_kind)),
                    format!("stats() says {f}, FAT has {} free", post.free),
                );
            }
        }
        Some(Err(e)) => push(&mut v, format!("{prop}/stats/error"), format!("{e:?}")),
        None => {}
    }
    // freed count on remove / truncate
    if let (Some(Ok(pre)), Some(op), Some(Ok(_))) = (&ex.pre, ops.last(), ex.outs.last()) {
        match op {
            Op::Remove { .. } => {
                // chain length of the removed object as decoded before the call
                let removed: Vec<String> = pre.flat().keys().filter(|k| !post.flat().contains_key(*k)).cloned().collect();
                if removed.len() == 1 {
                    if let Some(e) = pre.find_entry(&removed[0]) {
                        let chain = if e.is_dir() {
                            e.child.map_or(0, |c| pre.dirs[c].chain.len())
                        } else {
                            e.chain.len()
                        };
                        if post.free != pre.free + chain as u64 {
                            push(
                                &mut v,
                                format!("{prop}/remove/clusters-not-returned"),
                                format!("removed {} with {chain} clusters: free {} -> {}", removed[0], pre.free, post.free),
                            );
                        }
                    }
                }
            }
            Op::Truncate { h } => {
                // everything from the cursor onward goes back to the free pool
                if let Some(hd) = &ex.model_pre.fh[*h as usize] {
                    let p = ex.model_pre.path_of(hd.nid);
                    if let Some(e) = pre.find_entry(&p) {
                        let cs = pre.geo.cluster_size();
                        let keep = ((hd.pos + cs - 1) / cs) as usize;
                        let before = e.chain.len();
                        if before >= keep && post.free != pre.free + (before - keep) as u64 {
                            push(
                                &mut v,
                                format!("{prop}/truncate/clusters-not-returned"),
                                format!("truncate of {p} at {} (chain of {before} clusters, {keep} kept): free {} -> {}", hd.pos, pre.free, post.free),
                            );
                        }
                    }
                }
            }
            _ => {}
        }
    }
    // fs-info after unmount
    // (only when the library actually wrote the sector during this session)
    let fsinfo_written = match &ex.suffix.final_decoded {
        Some(Ok(fin)) if fin.geo.width == 32 => {
            let st = ex.st.borrow();
            let off = fin.geo.fsinfo_sector as u64 * fin.geo.bps as u64;
            let now = st.read_vec(off, 512);
            let base = crate::dev::DevState::new(st.base.clone()).read_vec(off, 512);
            now != base
        }
        _ => false,
    };
    // not rewritten although the allocation changed: a count that was right when the history started and is wrong
    // now is the library's doing (a count that was already wrong or unknown in the initial image is not)
    if let (false, Some((_, _, _, free, _)), Some(Ok(fin))) = (fsinfo_written, ex.suffix.fsinfo, &ex.suffix.final_decoded) {
        if fin.geo.width == 32 && free != 0xFFFF_FFFF && free as u64 != fin.free {
            let st = ex.st.borrow();
            let base = crate::dev::DevState::new(st.base.clone());
            let g = &fin.geo;
            let cands: Vec<u32> = fin.owner.keys().copied().chain((2..=g.max_cluster()).filter(|_| g.clusters <= 70_000)).collect();
            let opts = crate::decoder::DecodeOpts { candidates: if g.clusters <= 70_000 { None } else { Some(&cands) }, read_content: false, ..Default::default() };
            if let (Ok(b), Some((_, _, _, bfree, _))) = (crate::decoder::decode(&base, &opts), crate::decoder::fsinfo(&base, g)) {
                if bfree as u64 == b.free {
                    push(
                        &mut v,
                        format!("{prop}/fsinfo/stale-free-count"),
                        format!("fs-info still holds {free} after unmount (it was correct, {bfree}, in the initial image) but the FAT now has {} free entries", fin.free),
                    );
                }
            }
        }
    }
    if let (true, Some((lead, strc, trail, free, next)), Some(Ok(fin))) = (fsinfo_written, ex.suffix.fsinfo, &ex.suffix.final_decoded) {
        if !(lead && strc && trail) {
            push(&mut v, format!("{prop}/fsinfo/signatures"), format!("{lead} {strc} {trail}"));
        }
        if free as u64 != fin.free {
            push(&mut v, format!("{prop}/fsinfo/free-count"), format!("fs-info holds {free}, FAT has {} free", fin.free));
        }
        if next != 0xFFFF_FFFF && (next < 2 || next as u64 > fin.geo.clusters + 1) {
            push(&mut v, format!("{prop}/fsinfo/next-free-out-of-range"), format!("next free {next}, valid 2..={}", fin.geo.clusters + 1));
        }
    }
    v
}

/// The hidden cursor of every open file handle agrees with the reference model (offset) and with the independently
/// decoded cluster chain (the handle's current cluster is the cluster that holds byte offset-1; none at offset 0):
/// a cursor defect is reported at the call that causes it, not only when a later read or write goes wrong.
pub fn o_cursor(prop: &str, ops: &[Op], ex: &Exec) -> V {
    let mut v = V::new();
    if ex.panic.is_some() || !ex.completed || matches!(ex.outs.last(), Some(Err(e)) if e.is_io()) {
        return v;
    }
    let kind = ops.last().map_or("init", op_kind);
    let Some(Ok(d)) = &ex.post else { return v };
    let cs = d.geo.cluster_size();
    for (i, c) in ex.cursors.iter().enumerate() {
        let (Some((off, cur)), Some(h)) = (c, &ex.model.fh[i]) else { continue };
        if *off as u64 != h.pos {
            push(&mut v, format!("{prop}/cursor/offset/after-{kind}"), format!("handle {i}: the library's cursor is at {off}, the model's at {}", h.pos));
            continue;
        }
        let path = ex.model.path_of(h.nid);
        let Some(e) = d.find_entry(&path) else { continue };
        if !e.chain_ok {
            continue;
        }
        let want = if *off == 0 { None } else { e.chain.get(((*off as u64 - 1) / cs) as usize).copied() };
        if *off != 0 && want.is_none() {
            continue; // chain shorter than the cursor: reported by the invariants
        }
        if *cur != want {
            push(&mut v, format!("{prop}/cursor/current-cluster/after-{kind}"), format!("handle {i} on {path} at offset {off}: current cluster {cur:?}, the chain {:?} says {want:?}", &e.chain[..e.chain.len().min(6)]));
        }
    }
    v
}

/// C10: FAT copies / reserved entries / padding entries / reserved nibbles.
pub struct FatBaseline {
    pub entry0: Vec<u32>,
    pub entry1: Vec<u32>,
    /// raw padding entries (clusters+2 .. total entries) of copy 0
    pub padding: Vec<u32>,
    /// FAT32: reserved nibble of every candidate entry in the initial image
    pub nibbles: BTreeMap<u32, u32>,
    /// initial bytes of every FAT copy (for "inactive copies untouched")
    pub copies: Vec<Vec<u8>>,
}

pub fn fat_baseline(st: &crate::dev::DevState, cands: Option<&[u32]>) -> Option<FatBaseline> {
    let boot = st.read_vec(0, 512);
    let g = crate::decoder::parse_raw(&boot).ok()?;
    let mut b = FatBaseline { entry0: vec![], entry1: vec![], padding: vec![], nibbles: BTreeMap::new(), copies: vec![] };
    for c in 0..g.nfats {
        let f = crate::decoder::FatView::new(st, &g, c);
        b.entry0.push(f.raw(0));
        b.entry1.push(f.raw(1));
        if g.fat_bytes() <= 8 << 20 {
            b.copies.push(st.read_vec(g.fat_off(c), g.fat_bytes() as usize));
        }
    }
    let f = crate::decoder::FatView::new(st, &g, g.active_fat());
    let total = g.fat_entries_total();
    if total - (g.clusters + 2) <= 4096 {
        for c in (g.clusters + 2)..total {
            b.padding.push(f.raw(c as u32));
        }
    }
    if g.width == 32 {
        match cands {
            Some(cs) => {
                for c in cs {
                    b.nibbles.insert(*c, f.raw(*c) & 0xF000_0000);
                }
            }
            None => {
                if g.clusters < 300_000 {
                    for c in 2..=g.max_cluster() {
                        b.nibbles.insert(c, f.raw(c) & 0xF000_0000);
                    }
                }
            }
        }
    }
    Some(b)
}

pub fn o_fat_copies(prop: &str, ops: &[Op], ex: &Exec, base: &FatBaseline) -> V {
    let mut v = V::new();
    if ex.panic.is_some() || !ex.completed {
        return v;
    }
    let st = ex.st.borrow();
    let boot = st.read_vec(0, 512);
    let Ok(g) = crate::decoder::parse_raw(&boot) else { return v };
    let kind = ops.last().map_or("init", op_kind);
    let small = g.fat_bytes() <= 8 << 20;
    if g.mirrored() {
        if small {
            let c0 = st.read_vec(g.fat_off(0), g.fat_bytes() as usize);
            for c in 1..g.nfats {
                let cc = st.read_vec(g.fat_off(c), g.fat_bytes() as usize);
                if cc != c0 {
                    let at = c0.iter().zip(&cc).position(|(a, b)| a != b).unwrap_or(0);
                    push(&mut v, format!("{prop}/mirror/copies-differ/after-{kind}"), format!("copy {c} differs from copy 0 at byte {at}"));
                }
            }
        }
    } else {
        let act = g.active_fat();
        for c in 0..g.nfats {
            if c == act {
                continue;
            }
            if small && c < base.copies.len() as u32 {
                let cc = st.read_vec(g.fat_off(c), g.fat_bytes() as usize);
                if cc != base.copies[c as usize] {
                    push(&mut v, format!("{prop}/no-mirror/inactive-copy-changed/after-{kind}"), format!("copy {c} (active {act}) changed"));
                }
            }
        }
        // device log: no write intersecting an inactive copy
        for r in &ex.log {
            if r.kind == Kind::Write && r.len > 0 {
                for off in [r.off, r.off + r.len as u64 - 1] {
                    if let Region::Fat(c) = g.region(off) {
                        if c != act {
                            push(&mut v, format!("{prop}/no-mirror/write-to-inactive-copy/{kind}"), format!("write at {off} hits FAT copy {c}, active is {act}"));
                        }
                    }
                }
            }
        }
    }
    for c in 0..g.nfats {
        if !g.mirrored() && c != g.active_fat() {
            continue;
        }
        let f = crate::decoder::FatView::new(&st, &g, c);
        if f.raw(0) != base.entry0[c as usize] || f.raw(1) != base.entry1[c as usize] {
            push(
                &mut v,
                format!("{prop}/reserved-entries-changed/after-{kind}"),
                format!("copy {c}: entries 0/1 = {:#x}/{:#x}, were {:#x}/{:#x}", f.raw(0), f.raw(1), base.entry0[c as usize], base.entry1[c as usize]),
            );
        }
    }
    let f = crate::decoder::FatView::new(&st, &g, g.active_fat());
    for (i, p) in base.padding.iter().enumerate() {
        let c = (g.clusters + 2) as u32 + i as u32;
        if f.raw(c) != *p {
            push(&mut v, format!("{prop}/padding-entry-changed/after-{kind}"), format!("entry {c} past the last cluster: {:#x} -> {:#x}", p, f.raw(c)));
            break;
        }
    }
    if g.width == 32 {
        for (c, nib) in &base.nibbles {
            if f.raw(*c) & 0xF000_0000 != *nib {
                push(&mut v, format!("{prop}/reserved-bits-lost/after-{kind}"), format!("entry {c}: top nibble {:#x} -> {:#x}", nib, f.raw(*c) & 0xF000_0000));
                break;
            }
        }
    }
    // no chain contains a cluster beyond the last one (checked by the decoder as out-of-range links)
    v
}

/// C11: classify every device write of the last call.
pub fn o_writes(prop: &str, ops: &[Op], ex: &Exec) -> V {
    let mut v = V::new();
    let Some(Ok(pre)) = &ex.pre else { return v };
    let g = &pre.geo;
    let kind = ops.last().map_or("init", op_kind);
    // may-modify set: owners (as decoded before the call)
    let m = &ex.model_pre;
    let mut allowed_owner: Vec<String> = Vec::new();
    let add_dir = |n: Nid, out: &mut Vec<String>| out.push(format!("dir:{}", m.path_of(n)));
    let base_nid = |b: &crate::sess::DirRef| match b {
        crate::sess::DirRef::Root => Some(ROOT),
        crate::sess::DirRef::H(i) => m.dh[*i as usize].as_ref().map(|h| h.nid),
    };
    let parent_of_path = |b: Nid, path: &str, out: &mut Vec<String>| {
        // every directory on the path may have its own entry touched (modification time of the
        // directory written into); the entry set that changes is the last parent's
        let comps = crate::model::split(path);
        let mut cur = b;
        add_dir(cur, out);
        for c in comps.iter().take(comps.len().saturating_sub(1)) {
            match m.lookup(cur, c) {
                Some(n) => {
                    cur = n;
                    add_dir(cur, out);
                }
                None => break,
            }
        }
        cur
    };
    let handle_sets = |h: usize, out: &mut Vec<String>| {
        if let Some(hd) = &m.fh[h] {
            out.push(format!("file:{}", m.path_of(hd.nid)));
            let p = m.nodes[&hd.nid].parent;
            out.push(format!("dir:{}", m.path_of(p)));
        }
    };
    if let Some(op) = ops.last() {
        match op {
            Op::CreateFile { base, path, .. } | Op::CreateDir { base, path, .. } | Op::Remove { base, path } => {
                if let Some(b) = base_nid(base) {
                    let p = parent_of_path(b, path, &mut allowed_owner);
                    // grand-parent: the parent's own entry (mtime) lives there
                    add_dir(m.nodes[&p].parent, &mut allowed_owner);
                    if let crate::model::Resolve::Found(n) = m.resolve(b, path) {
                        if m.is_dir(n) {
                            add_dir(n, &mut allowed_owner);
                        } else {
                            allowed_owner.push(format!("file:{}", m.path_of(n)));
                        }
                    }
                }
            }
            Op::Rename { base, src, dst_base, dst } => {
                if let (Some(b), Some(d)) = (base_nid(base), base_nid(dst_base)) {
                    let p = parent_of_path(b, src, &mut allowed_owner);
                    add_dir(m.nodes[&p].parent, &mut allowed_owner);
                    let q = parent_of_path(d, dst, &mut allowed_owner);
                    add_dir(m.nodes[&q].parent, &mut allowed_owner);
                    if let crate::model::Resolve::Found(n) = m.resolve(b, src) {
                        if m.is_dir(n) {
                            // '..' of a moved directory
                            add_dir(n, &mut allowed_owner);
                        }
                    }
                }
            }
            Op::Write { h, .. }
            | Op::WriteAll { h, .. }
            | Op::Fill { h, .. }
            | Op::Truncate { h }
            | Op::Flush { h }
            | Op::DropFile { h }
            | Op::Read { h, .. }
            | Op::ReadExact { h, .. }
            | Op::Seek { h, .. }
            | Op::Extents { h }
            | Op::SetTime { h, .. } => handle_sets(*h as usize, &mut allowed_owner),
            Op::Remount | Op::DropRemount => {
                for h in 0..m.fh.len() {
                    handle_sets(h, &mut allowed_owner);
                }
            }
            _ => {}
        }
    }
    let mirrored = g.mirrored();
    let act = g.active_fat();
    let pre_dev = ex_pre_dev(ex);
    let pre_fat = crate::decoder::FatView::new_uncached(&pre_dev, g, act);
    for r in &ex.log {
        if r.kind != Kind::Write || r.len == 0 {
            continue;
        }
        let mut off = r.off;
        let end = r.off + r.len as u64;
        while off < end {
            let reg = g.region(off);
            let bad = match &reg {
                Region::BootStatus | Region::FsInfo | Region::Root => None,
                Region::Fat(c) => {
                    if mirrored || *c == act {
                        None
                    } else {
                        Some(format!("inactive-fat-{c}"))
                    }
                }
                Region::Cluster(c) => match pre.owner.get(c) {
                    Some(o) => {
                        if allowed_owner.iter().any(|a| a == o) {
                            None
                        } else {
                            Some("foreign-cluster".to_string())
                        }
                    }
                    None => {
                        // free before the call? (bad clusters are not free)
                        let val = pre_fat.get(*c);
                        if val == 0 {
                            None
                        } else if val == g.bad_mark() {
                            Some("bad-cluster".to_string())
                        } else {
                            // allocated before the call but unowned: chain of a live handle not yet recorded
                            let live = ex.live_pre.iter().any(|l| l.first_cluster.is_some());
                            if live {
                                None
                            } else {
                                Some("unowned-allocated-cluster".to_string())
                            }
                        }
                    }
                },
                Region::BootOther => Some("boot-sector".into()),
                Region::BackupBoot => Some("backup-boot-sector".into()),
                Region::ReservedOther => Some("reserved-sector".into()),
                Region::Slack => Some("slack-after-last-cluster".into()),
                Region::Beyond => Some("beyond-volume-end".into()),
            };
            if let Some(b) = bad {
                let owner = if let Region::Cluster(c) = &reg { pre.owner.get(c).cloned() } else { None };
                push(
                    &mut v,
                    format!("{prop}/write-to-{b}/{kind}"),
                    format!("write of {} bytes at {} touches {reg:?} at {off} (owner {owner:?}; allowed {allowed_owner:?})", r.len, r.off),
                );
                break;
            }
            // advance to the next region boundary (at most one sector at a time)
            let step = g.bps as u64 - (off % g.bps as u64);
            off += step.min(end - off).max(1);
            if reg == Region::BootStatus {
                // the status byte is a single byte
                off = r.off + 1;
                if off < end {
                    push(&mut v, format!("{prop}/write-to-boot-sector/{kind}"), format!("write of {} bytes at {} extends past the status byte", r.len, r.off));
                    break;
                }
            }
        }
    }
    if ex.oob_write {
        push(&mut v, format!("{prop}/write-beyond-device/{kind}"), "a write addressed bytes beyond the physical device".into());
    }
    v
}

/// device state as it was before the last call (base + pre overlay)
fn ex_pre_dev(ex: &Exec) -> crate::dev::DevState {
    let st = ex.st.borrow();
    let mut d = crate::dev::DevState::new(st.base.clone());
    d.overlay = ex.pre_overlay.clone();
    d
}

/// C13: no write at all in a read-only session (exception: fs-info after stats without a count).
pub fn o_readonly(prop: &str, ex: &Exec, stats_exception: bool) -> V {
    let mut v = V::new();
    let st = ex.st.borrow();
    let boot = st.read_vec(0, 512);
    let Ok(g) = crate::decoder::parse_raw(&boot) else { return v };
    for r in &ex.log {
        if r.kind == Kind::Write {
            let in_fsinfo = r.len > 0 && g.region(r.off) == Region::FsInfo && g.region(r.off + r.len as u64 - 1) == Region::FsInfo;
            if stats_exception && in_fsinfo {
                continue;
            }
            push(&mut v, format!("{prop}/write-in-read-only-session/{:?}", g.region(r.off)), format!("write of {} bytes at {} (op #{})", r.len, r.off, r.op_idx));
            break;
        }
    }
    v
}

/// C12: the dirty bit brackets structural changes; clean unmount restores the status byte.
pub fn o_dirty(prop: &str, ops: &[Op], ex: &Exec) -> V {
    let mut v = V::new();
    if ex.panic.is_some() || !ex.completed {
        return v;
    }
    let kind = ops.last().map_or("init", op_kind);
    // did this very call change allocation / entry sets / sizes / data (independent decode)?
    let changed_now = match (&ex.pre, &ex.post, ops.last()) {
        (_, _, Some(Op::Remount | Op::DropRemount | Op::Abandon)) => false,
        (Some(Ok(a)), Some(Ok(b)), _) => {
            let fa = a.flat();
            let fb = b.flat();
            let sets_differ = fa.len() != fb.len()
                || fa.iter().zip(fb.iter()).any(|((ka, na), (kb, nb))| ka != kb || na.is_dir != nb.is_dir || na.size != nb.size || na.content != nb.content);
            sets_differ || a.free != b.free || a.owner != b.owner
        }
        _ => false,
    };
    let changed = ex.model.changed_since_mount || changed_now;
    let mount = ex.status_byte_at_mount;
    if changed && ex.status_post & 1 == 0 {
        push(&mut v, format!("{prop}/dirty-bit-clear-after-change/{kind}"), format!("status byte {:#04x} after a structural change (mount-time {mount:#04x})", ex.status_post));
    }
    if ex.status_post & mount & 3 != mount & 3 {
        push(&mut v, format!("{prop}/mount-time-status-bit-cleared/{kind}"), format!("status byte {:#04x}, mount-time {mount:#04x}", ex.status_post));
    }
    if let Some(r) = &ex.abandoned_boundary_flags {
        match r {
            Ok((dirty, _io)) => {
                if (changed || mount & 1 != 0) && !dirty {
                    push(&mut v, format!("{prop}/abandoned-volume-not-reported-dirty/{kind}"), format!("changed={changed} mount-time {mount:#04x}, remount reports clean"));
                }
            }
            Err(e) => push(&mut v, format!("{prop}/abandoned-volume-does-not-mount"), format!("{e:?}")),
        }
    }
    // the history itself ended the session (explicit unmount, or plain drop = the documented implicit unmount)
    if let (Some((at_mount, after)), Some(Ok(_)), None) = (ex.epoch_end_status, ex.outs.last(), ex.fired_early) {
        // (mount-time bytes with reserved bits: only bits 0/1 are judged, decision 3.2(7))
        let m = if at_mount > 3 { 3 } else { 0xFF };
        if (after ^ at_mount) & m != 0 {
            let how = if matches!(ops.last(), Some(Op::DropRemount)) { "drop" } else { "unmount" };
            push(&mut v, format!("{prop}/{how}-did-not-restore-status"), format!("status byte {after:#04x} after {how}, {at_mount:#04x} when that session was mounted"));
        }
    }
    if let Some(Ok(())) = &ex.suffix.unmount {
        let m = if mount > 3 { 3 } else { 0xFF };
        if (ex.suffix.status_unmounted ^ mount) & m != 0 {
            push(&mut v, format!("{prop}/unmount-did-not-restore-status/{kind}"), format!("status byte {:#04x} after unmount, mount-time {mount:#04x}", ex.suffix.status_unmounted));
        }
    }
    v
}

/// C18(b): every timestamp of every file entry (after flushing handles) follows the stamping rules.
pub fn o_stamps(prop: &str, ex: &Exec) -> V {
    use crate::model::Stamp;
    use crate::sess::instant_words;
    let mut v = V::new();
    if ex.panic.is_some() || !ex.completed {
        return v;
    }
    let Some(Ok(d)) = &ex.suffix.flushed else { return v };
    let now = ex.ticks_post;
    for (nid, node) in &ex.model.nodes {
        if *nid == ROOT {
            continue;
        }
        let p = ex.model.path_of(*nid);
        let Some(e) = d.find_entry(&p) else { continue };
        let is_dir = matches!(node.kind, MKind::Dir(_));
        let check = |what: &str, exp: Stamp, matches: &dyn Fn(u32) -> bool, v: &mut V| {
            let (lo, hi, class) = match exp {
                Stamp::Unknown => return,
                Stamp::Range(lo, hi) => (lo + 1, hi, "clock"),
                Stamp::Exact(t) => (t, t, "explicit"),
            };
            if !(lo..=hi).any(|t| matches(t)) {
                // does it come from the clock at all?
                let from_clock = (0..=now.max(hi)).find(|t| matches(*t));
                push(
                    v,
                    format!("{prop}/stamp/{what}/{}-{class}", if is_dir { "dir" } else { "file" }),
                    format!("{p}: {what} on disk is not the instant expected ({class} ticks {lo}..={hi}); it equals tick {from_clock:?}"),
                );
            }
        };
        check("created", node.stamps.created, &|t| {
            let (dw, tw, ten) = instant_words(t);
            e.cdate == dw && e.ctime == tw && e.ctime_tenth == ten
        }, &mut v);
        if !is_dir {
            check("modified", node.stamps.modified, &|t| {
                let (dw, tw, _) = instant_words(t);
                e.mdate == dw && e.mtime == tw
            }, &mut v);
            check("accessed", node.stamps.accessed, &|t| instant_words(t).0 == e.adate, &mut v);
        }
    }
    v
}
