//! Reference models: a case-insensitive, case-preserving in-memory tree; files are byte vectors;
//! handles are (node id, cursor). Deliberately boring.

use std::collections::BTreeMap;

#[derive(Debug, Clone, Copy, PartialEq, Eq, Hash, PartialOrd, Ord)]
pub enum ErrKind {
    Io(u32),
    UnexpectedEof,
    WriteZero,
    InvalidInput,
    NotFound,
    AlreadyExists,
    DirectoryIsNotEmpty,
    CorruptedFileSystem,
    NotEnoughSpace,
    InvalidFileNameLength,
    UnsupportedFileNameCharacter,
    Other,
}

impl ErrKind {
    pub fn is_io(&self) -> bool {
        matches!(self, ErrKind::Io(_))
    }
    pub fn name(&self) -> String {
        format!("{self:?}")
    }
}

pub fn fold(s: &str) -> String {
    s.chars().flat_map(char::to_uppercase).collect()
}

pub fn fold_ascii(s: &str) -> String {
    s.chars().map(|c| c.to_ascii_uppercase()).collect()
}

/// Independent statement of the documented long-name character set.
pub fn char_allowed(c: char) -> Option<bool> {
    match c {
        'a'..='z' | 'A'..='Z' | '0'..='9' => Some(true),
        '$' | '%' | '\'' | '-' | '_' | '@' | '~' | '`' | '!' | '(' | ')' | '{' | '}' | '^' | '#' | '&' | '+' | ','
        | ';' | '=' | '[' | ']' | '.' | ' ' => Some(true),
        c if (c as u32) >= 0x80 && (c as u32) <= 0xFFFF => Some(true),
        c if (c as u32) > 0xFFFF => None, // beyond the BMP: not documented either way
        _ => Some(false),
    }
}

/// Which name errors apply to `name` (empty = the name must be accepted);
/// second value: true when the verdict is not documented (astral characters).
pub fn name_errors(name: &str) -> (Vec<ErrKind>, bool) {
    let mut v = Vec::new();
    let mut undoc = false;
    if name.is_empty() || name.len() > 255 {
        v.push(ErrKind::InvalidFileNameLength);
    }
    for c in name.chars() {
        match char_allowed(c) {
            Some(true) => {}
            Some(false) => {
                if !v.contains(&ErrKind::UnsupportedFileNameCharacter) {
                    v.push(ErrKind::UnsupportedFileNameCharacter);
                }
            }
            None => undoc = true,
        }
    }
    (v, undoc)
}

pub type Nid = u32;

#[derive(Debug, Clone, PartialEq, Eq)]
pub enum MKind {
    File,
    Dir(BTreeMap<String, Nid>),
}

/// expected timestamp: issued by the clock during an operation (tick range lo < t <= hi), set explicitly
/// to the instant of a tick, or not tracked
#[derive(Debug, Clone, Copy, PartialEq, Eq, Default)]
pub enum Stamp {
    #[default]
    Unknown,
    Range(u32, u32),
    Exact(u32),
}

#[derive(Debug, Clone, Copy, PartialEq, Eq, Default)]
pub struct Stamps {
    pub created: Stamp,
    pub modified: Stamp,
    pub accessed: Stamp,
}

#[derive(Debug, Clone, PartialEq, Eq)]
pub struct MNode {
    pub given: String,
    /// observed 8.3 alias in display form (upper case), "" when not yet observed
    pub alias: String,
    pub kind: MKind,
    pub data: Vec<u8>,
    pub parent: Nid,
    pub stamps: Stamps,
}

#[derive(Debug, Clone, PartialEq, Eq)]
pub struct MFileHandle {
    pub nid: Nid,
    pub pos: u64,
    /// handle has modified size/first cluster/timestamps since its last flush
    pub dirty: bool,
    /// number of times this handle has written (write generation)
    pub gen: u32,
}

#[derive(Debug, Clone, PartialEq, Eq)]
pub struct MDirHandle {
    pub nid: Nid,
}

pub const ROOT: Nid = 0;
pub const NFH: usize = 3;
pub const NDH: usize = 2;

#[derive(Debug, Clone, PartialEq, Eq)]
pub struct Model {
    pub nodes: BTreeMap<Nid, MNode>,
    pub next: Nid,
    pub fh: [Option<MFileHandle>; NFH],
    pub dh: [Option<MDirHandle>; NDH],
    pub unicode: bool,
    /// some call since mount changed FAT / entry set / size / data (C12)
    pub changed_since_mount: bool,
    pub mounts: u32,
    /// number of file handles opened so far (a new handle starts with this write generation: the first in-place
    /// write through a re-opened handle then differs from the bytes that are already there)
    pub opens: u32,
}

#[derive(Debug, Clone, PartialEq, Eq)]
pub enum Resolve {
    Found(Nid),
    /// parent exists, last component missing: (parent, name)
    Missing(Nid, String),
    /// an intermediate component is missing
    NoParent,
    /// an intermediate component is a regular file
    ThroughFile,
}

pub fn split(path: &str) -> Vec<&str> {
    path.split('/').filter(|c| !c.is_empty()).collect()
}

impl Model {
    pub fn new(unicode: bool) -> Self {
        let mut nodes = BTreeMap::new();
        nodes.insert(
            ROOT,
            MNode {
                given: String::new(),
                alias: String::new(),
                kind: MKind::Dir(BTreeMap::new()),
                data: Vec::new(),
                parent: ROOT,
                stamps: Stamps::default(),
            },
        );
        Model {
            nodes,
            next: 1,
            fh: Default::default(),
            dh: Default::default(),
            unicode,
            changed_since_mount: false,
            mounts: 0,
            opens: 0,
        }
    }

    pub fn fold(&self, s: &str) -> String {
        if self.unicode {
            fold(s)
        } else {
            fold_ascii(s)
        }
    }

    pub fn children(&self, dir: Nid) -> Option<&BTreeMap<String, Nid>> {
        match &self.nodes.get(&dir)?.kind {
            MKind::Dir(c) => Some(c),
            MKind::File => None,
        }
    }

    pub fn is_dir(&self, n: Nid) -> bool {
        matches!(self.nodes[&n].kind, MKind::Dir(_))
    }

    /// match one component in a directory: by folded given name or by folded alias
    pub fn lookup(&self, dir: Nid, comp: &str) -> Option<Nid> {
        // dot components resolve like the dot entries every subdirectory has (the root has none)
        if dir != ROOT && self.is_dir(dir) {
            if comp == "." {
                return Some(dir);
            }
            if comp == ".." {
                return Some(self.nodes[&dir].parent);
            }
        }
        let ch = self.children(dir)?;
        let f = self.fold(comp);
        if let Some(n) = ch.get(&f) {
            return Some(*n);
        }
        for n in ch.values() {
            let node = &self.nodes[n];
            if !node.alias.is_empty() && self.fold(&node.alias) == f {
                return Some(*n);
            }
        }
        None
    }

    pub fn resolve(&self, base: Nid, path: &str) -> Resolve {
        let comps = split(path);
        if comps.is_empty() {
            // the library looks up the empty name and does not find it
            return Resolve::Missing(base, String::new());
        }
        let mut cur = base;
        for (i, c) in comps.iter().enumerate() {
            let last = i + 1 == comps.len();
            if !self.is_dir(cur) {
                return Resolve::ThroughFile;
            }
            match self.lookup(cur, c) {
                Some(n) => {
                    if last {
                        return Resolve::Found(n);
                    }
                    cur = n;
                }
                None => {
                    if last {
                        return Resolve::Missing(cur, (*c).to_string());
                    }
                    return Resolve::NoParent;
                }
            }
        }
        unreachable!()
    }

    pub fn add(&mut self, parent: Nid, given: &str, is_dir: bool) -> Nid {
        let id = self.next;
        self.next += 1;
        let f = self.fold(given);
        self.nodes.insert(
            id,
            MNode {
                given: given.to_string(),
                alias: String::new(),
                kind: if is_dir { MKind::Dir(BTreeMap::new()) } else { MKind::File },
                data: Vec::new(),
                parent,
                stamps: Stamps::default(),
            },
        );
        if let MKind::Dir(c) = &mut self.nodes.get_mut(&parent).unwrap().kind {
            c.insert(f, id);
        }
        id
    }

    pub fn detach(&mut self, n: Nid) {
        let parent = self.nodes[&n].parent;
        let f = self.fold(&self.nodes[&n].given.clone());
        if let MKind::Dir(c) = &mut self.nodes.get_mut(&parent).unwrap().kind {
            c.remove(&f);
        }
    }

    pub fn remove(&mut self, n: Nid) {
        self.detach(n);
        self.nodes.remove(&n);
    }

    pub fn move_node(&mut self, n: Nid, new_parent: Nid, new_name: &str) {
        self.detach(n);
        let f = self.fold(new_name);
        {
            let node = self.nodes.get_mut(&n).unwrap();
            node.given = new_name.to_string();
            node.alias = String::new();
            node.parent = new_parent;
        }
        if let MKind::Dir(c) = &mut self.nodes.get_mut(&new_parent).unwrap().kind {
            c.insert(f, n);
        }
    }

    /// is `anc` an ancestor of (or equal to) `n`?
    pub fn is_ancestor(&self, anc: Nid, n: Nid) -> bool {
        let mut cur = n;
        loop {
            if cur == anc {
                return true;
            }
            if cur == ROOT {
                return false;
            }
            cur = self.nodes[&cur].parent;
        }
    }

    pub fn path_of(&self, n: Nid) -> String {
        if n == ROOT {
            return "/".into();
        }
        let mut parts = Vec::new();
        let mut cur = n;
        while cur != ROOT {
            parts.push(self.nodes[&cur].given.clone());
            cur = self.nodes[&cur].parent;
        }
        parts.reverse();
        format!("/{}", parts.join("/"))
    }

    pub fn file_handle_on(&self, n: Nid) -> Option<usize> {
        self.fh.iter().position(|h| h.as_ref().map_or(false, |h| h.nid == n))
    }

    pub fn dir_handle_on(&self, n: Nid) -> Option<usize> {
        self.dh.iter().position(|h| h.as_ref().map_or(false, |h| h.nid == n))
    }

    pub fn has_handle(&self, n: Nid) -> bool {
        self.file_handle_on(n).is_some() || self.dir_handle_on(n).is_some()
    }

    /// any live handle on `n` or (for directories) on a directory handle inside the subtree
    pub fn subtree_has_dir_handle(&self, n: Nid) -> bool {
        self.dh.iter().flatten().any(|h| self.is_ancestor(n, h.nid))
    }

    /// flat view: path -> (is_dir, content)
    pub fn flat(&self) -> BTreeMap<String, (bool, Vec<u8>)> {
        let mut out = BTreeMap::new();
        for (id, node) in &self.nodes {
            if *id == ROOT {
                continue;
            }
            out.insert(self.path_of(*id), (matches!(node.kind, MKind::Dir(_)), node.data.clone()));
        }
        out
    }

    pub fn close_all(&mut self) {
        self.fh = Default::default();
        self.dh = Default::default();
    }
}

/// deterministic content byte for (file id, absolute offset, write generation)
pub fn pattern(nid: Nid, off: u64, gen: u32) -> u8 {
    let x = (nid as u64).wrapping_mul(0x9E37_79B9_7F4A_7C15) ^ off.wrapping_mul(0xC2B2_AE3D_27D4_EB4F) ^ ((gen % 3) as u64 + 1).wrapping_mul(0x1656_67B1_9E37_79F9);
    let b = (x ^ (x >> 29) ^ (x >> 47)) as u8;
    // never 0x00 / 0xE5 / 0xFF so stale metadata is distinguishable from data
    match b {
        0x00 => 0x11,
        0xE5 => 0x12,
        0xFF => 0x13,
        b => b,
    }
}
