//! Violations -> replay files, known findings, evidence files, exit codes.

use std::collections::BTreeSet;
use std::path::{Path, PathBuf};

use serde_json::{json, Value};

use crate::explore::{Stats, Violation};

pub fn verif_root() -> String {
    std::env::var("VERIF_ROOT").unwrap_or_else(|_| "/verif".to_string())
}

/// where evidence and replay files go (default: the verification root)
pub fn out_root() -> String {
    std::env::var("VERIF_OUT").unwrap_or_else(|_| verif_root())
}

pub fn seed() -> i64 {
    std::env::var("VERIF_SEED").ok().and_then(|s| s.parse().ok()).unwrap_or(0)
}

pub struct Known {
    /// (property, signature, what)
    pub findings: Vec<(String, String, String)>,
}

pub fn load_known() -> Known {
    let p = Path::new(&verif_root()).join("known_findings.json");
    let mut k = Known { findings: vec![] };
    if let Ok(s) = std::fs::read_to_string(&p) {
        match serde_json::from_str::<Value>(&s) {
            Ok(v) => {
                if let Some(a) = v.get("findings").and_then(Value::as_array) {
                    for f in a {
                        let g = |k: &str| f.get(k).and_then(Value::as_str).unwrap_or("").to_string();
                        k.findings.push((g("property"), g("signature"), g("what")));
                    }
                }
            }
            Err(e) => {
                eprintln!("MACHINERY ERROR: known_findings.json does not parse: {e}");
                std::process::exit(2);
            }
        }
    }
    k
}

fn hash_str(s: &str) -> String {
    use std::hash::{Hash, Hasher};
    let mut h = std::collections::hash_map::DefaultHasher::new();
    s.hash(&mut h);
    format!("{:016x}", h.finish())
}

pub struct Report {
    pub prop: String,
    pub tier: String,
    pub level: String,
    pub coverage: Value,
    pub assumptions: Vec<String>,
    pub violations: Vec<Violation>,
    pub wall_s: f64,
    /// replay payloads keyed like violations (same order)
    pub replays: Vec<Value>,
}

impl Report {
    pub fn new(prop: &str, tier: &str, level: &str) -> Self {
        Report {
            prop: prop.into(),
            tier: tier.into(),
            level: level.into(),
            coverage: json!({}),
            assumptions: vec![],
            violations: vec![],
            wall_s: 0.0,
            replays: vec![],
        }
    }

    pub fn add(&mut self, v: Violation, replay: Value) {
        self.violations.push(v);
        self.replays.push(replay);
    }

    /// writes evidence + replay files, prints the verdict lines, returns the process exit code
    pub fn finish(mut self) -> i32 {
        // replay mode for enumeration-style checks: re-run and look for one signature only
        if let Ok(sig) = std::env::var("VERIF_REPLAY_SIG") {
            let path = std::env::var("VERIF_REPLAY_PATH").unwrap_or_default();
            return match self.violations.iter().find(|v| v.sig == sig) {
                Some(v) => {
                    println!("replay: signature {sig} reproduced");
                    println!("  config: {}  occurrences: {}", v.cfg, v.count);
                    println!("  message: {}", v.msg);
                    println!("VIOLATION property={} replay={}", self.prop, path);
                    1
                }
                None => {
                    println!("replay: signature {sig} not reproduced on this tree");
                    0
                }
            };
        }
        let known = load_known();
        let mut exit = 0;
        let mut printed_known = BTreeSet::new();
        let mut new_violations = 0;
        let mut known_hits = Vec::new();
        let dir: PathBuf = Path::new(&out_root()).join("replays").join(&self.prop);
        for (i, v) in self.violations.iter().enumerate() {
            let k = known.findings.iter().find(|(p, sig, _)| *p == self.prop && *sig == v.sig);
            if let Some((_, sig, what)) = k {
                if printed_known.insert(sig.clone()) {
                    println!("KNOWN-FINDING: property={} {} [{}] (x{} on {})", self.prop, what, sig, v.count, v.cfg);
                    known_hits.push(sig.clone());
                }
                continue;
            }
            new_violations += 1;
            let _ = std::fs::create_dir_all(&dir);
            let payload = json!({
                "property": self.prop,
                "signature": v.sig,
                "message": v.msg,
                "config": v.cfg,
                "history": v.hist.iter().map(|o| format!("{o:?}")).collect::<Vec<_>>(),
                "count": v.count,
                "extra": v.extra,
                "replay": self.replays.get(i).cloned().unwrap_or(Value::Null),
            });
            let name = format!("{}.json", hash_str(&format!("{}|{}", v.sig, v.cfg)));
            let path = dir.join(name);
            let _ = std::fs::write(&path, serde_json::to_string_pretty(&payload).unwrap());
            println!("VIOLATION property={} replay={}", self.prop, path.display());
            println!("  signature: {}", v.sig);
            println!("  config: {}  occurrences: {}", v.cfg, v.count);
            println!("  history: {:?}", v.hist);
            println!("  message: {}", v.msg);
            exit = 1;
        }
        if let Some(o) = self.coverage.as_object_mut() {
            o.insert("known_findings_hit".into(), json!(known_hits));
        }
        let ev = json!({
            "property_id": self.prop,
            "tier": self.tier,
            "seed": seed(),
            "level": self.level,
            "coverage": self.coverage,
            "assumptions": self.assumptions,
            "wall_s": self.wall_s,
            "violations": new_violations,
        });
        let evdir = Path::new(&out_root()).join("evidence");
        let _ = std::fs::create_dir_all(&evdir);
        let evp = evdir.join(format!("{}.json", self.prop));
        if let Err(e) = std::fs::write(&evp, serde_json::to_string_pretty(&ev).unwrap()) {
            eprintln!("MACHINERY ERROR: cannot write evidence {}: {e}", evp.display());
            return 2;
        }
        println!(
            "{} {}: {} new violation(s), {} known finding(s); evidence {}",
            self.prop,
            self.tier,
            new_violations,
            printed_known.len(),
            evp.display()
        );
        exit
    }
}

pub fn stats_json(s: &Stats) -> Value {
    json!({
        "states": s.states,
        "transitions": s.transitions,
        "max_depth_completed": s.max_depth_completed,
        "per_depth": s.per_depth.iter().map(|(d, t, n)| json!({"depth": d, "transitions": t, "new_states": n})).collect::<Vec<_>>(),
        "outcomes": s.outcomes,
        "capped": s.capped,
        "determinism_rechecks": s.determinism_rechecks,
        "states_with_two_or_more_handles": s.two_handle_states,
        "states_at_zero_free_clusters": s.full_states,
        "wall_s": s.wall_s,
        "alphabet_entries_never_enabled": s.never_executed,
    })
}
