//! Session executor: replays an operation history on the real `fatfs` crate over a `MemDev`,
//! in lockstep with the reference model, and gathers the observations the oracles need.

use std::cell::{Cell, RefCell};
use std::collections::BTreeMap;
use std::panic::{catch_unwind, AssertUnwindSafe};
use std::rc::Rc;
use std::sync::Arc;

use fatfs::{
    Date, DateTime, Dir, Error, File, FileSystem, FsOptions, LossyOemCpConverter, Read, Seek, SeekFrom, Time,
    TimeProvider, Write,
};

use crate::decoder::{self, DecodeOpts, Decoded, LiveHandle};
use crate::dev::{new_dev, Base, DevErr, DevState, MemDev, Rec, Short};
use crate::model::{self, ErrKind, MDirHandle, MFileHandle, MKind, Model, Nid, Resolve, NDH, NFH, ROOT};

// ---------------------------------------------------------------- clock

#[derive(Debug, Clone)]
pub struct Clock {
    pub ticking: bool,
    pub ctr: Rc<Cell<u32>>,
}

/// i-th instant of the fixed RefClock sequence: distinct in date, 2-second time and 10-ms time.
pub fn instant(i: u32) -> DateTime {
    let year = 2001 + (i / 336) % 100;
    let month = 1 + (i / 28) % 12;
    let day = 1 + i % 28;
    let hour = i % 24;
    let min = (i * 7) % 60;
    let sec = (i * 2) % 60;
    let millis = (i * 10) % 1000;
    DateTime::new(
        Date::new(year as u16, month as u16, day as u16),
        Time::new(hour as u16, min as u16, sec as u16, millis as u16),
    )
}

/// independent DOS packing of `instant(i)`: (date word, time word, tenths byte)
pub fn instant_words(i: u32) -> (u16, u16, u8) {
    let year = 2001 + (i / 336) % 100;
    let month = 1 + (i / 28) % 12;
    let day = 1 + i % 28;
    let hour = i % 24;
    let min = (i * 7) % 60;
    let sec = (i * 2) % 60;
    let millis = (i * 10) % 1000;
    let date = (((year - 1980) << 9) | (month << 5) | day) as u16;
    let time = ((hour << 11) | (min << 5) | (sec / 2)) as u16;
    let tenths = ((sec % 2) * 100 + millis / 10) as u8;
    (date, time, tenths)
}

impl TimeProvider for Clock {
    fn get_current_date(&self) -> Date {
        self.get_current_date_time().date
    }
    fn get_current_date_time(&self) -> DateTime {
        if self.ticking {
            let i = self.ctr.get();
            self.ctr.set(i + 1);
            instant(i + 1)
        } else {
            // frozen clock: stands at instant(start value of the counter)
            instant(self.ctr.get())
        }
    }
}

pub type Fs = FileSystem<MemDev, Clock, LossyOemCpConverter>;
pub type FFile<'a> = File<'a, MemDev, Clock, LossyOemCpConverter>;
pub type FDir<'a> = Dir<'a, MemDev, Clock, LossyOemCpConverter>;

// ---------------------------------------------------------------- configuration

#[derive(Clone)]
pub struct Cfg {
    pub name: String,
    pub base: Arc<Base>,
    pub ticking: bool,
    pub atime: bool,
    pub short: Short,
    /// clusters that may be non-bad in a ballast volume (None = scan the whole FAT)
    pub candidates: Option<Arc<Vec<u32>>>,
    pub unicode: bool,
    /// reference model of a pre-populated base image
    pub model0: Option<Arc<Model>>,
    /// order in which the mount options are given to the builder (0..=3): the result must not depend on it
    pub opts_order: u8,
    /// start value of the clock counter (a frozen clock stands at instant(clock0))
    pub clock0: u32,
}

impl Cfg {
    pub fn new(name: &str, base: Arc<Base>) -> Self {
        Cfg {
            name: name.to_string(),
            base,
            ticking: false,
            atime: false,
            short: Short::Exact,
            candidates: None,
            unicode: true,
            model0: None,
            opts_order: 0,
            clock0: 0,
        }
    }
}

// ---------------------------------------------------------------- operations

#[derive(Debug, Clone, Copy, PartialEq, Eq, Hash)]
pub enum DirRef {
    Root,
    H(u8),
}

#[derive(Debug, Clone, Copy, PartialEq, Eq, Hash)]
pub enum SeekSpec {
    Start(u64),
    Current(i64),
    End(i64),
}

#[derive(Debug, Clone, Copy, PartialEq, Eq, Hash)]
pub enum Which {
    Created,
    Modified,
    Accessed,
}

#[derive(Debug, Clone, PartialEq, Eq, Hash)]
pub enum Op {
    CreateFile { base: DirRef, path: String, keep: Option<u8> },
    OpenFile { base: DirRef, path: String, keep: Option<u8> },
    CreateDir { base: DirRef, path: String, keep: Option<u8> },
    OpenDir { base: DirRef, path: String, keep: Option<u8> },
    List { base: DirRef, path: String },
    /// iterate only the first entry of the directory and abandon the iterator
    ListOne { base: DirRef, path: String },
    Remove { base: DirRef, path: String },
    Rename { base: DirRef, src: String, dst_base: DirRef, dst: String },
    Write { h: u8, len: u32 },
    WriteAll { h: u8, len: u32 },
    /// single-cluster `write` calls until the first error or `max` calls
    Fill { h: u8, max: u32 },
    Read { h: u8, len: u32 },
    ReadExact { h: u8, len: u32 },
    Seek { h: u8, pos: SeekSpec },
    Truncate { h: u8 },
    Flush { h: u8 },
    DropFile { h: u8 },
    DropDir { d: u8 },
    Extents { h: u8 },
    /// replace the handle by its `Clone` and drop the original (the clone must be an equivalent handle)
    CloneFile { h: u8 },
    /// set a timestamp to `instant(tick)`
    SetTime { h: u8, which: Which, tick: u32 },
    Stats,
    StatusFlags,
    Label,
    Meta,
    /// drop handles, `unmount()`, mount again
    Remount,
    /// drop handles, drop the file system without calling unmount, mount again
    DropRemount,
    /// forget everything without running destructors (power cut with all writes persisted), mount again
    Abandon,
}

#[derive(Debug, Clone, PartialEq, Eq)]
pub struct ListEntry {
    pub name: String,
    pub short: String,
    pub is_dir: bool,
    pub len: u64,
    pub attr: u8,
    pub units: Option<Vec<u16>>,
}

#[derive(Debug, Clone, PartialEq, Eq)]
pub enum Out {
    Unit,
    Count(u64),
    Bytes(Vec<u8>),
    Pos(u64),
    Listing(Vec<ListEntry>),
    Stats { free: u32, total: u32, cs: u32 },
    Flags { dirty: bool, io: bool },
    Extents(Vec<(u64, u32)>),
    Label(Option<Vec<u8>>, String),
    /// write_all / fill: bytes accepted before the error (if any)
    Progress { accepted: u64, err: Option<ErrKind> },
}

pub type Res = Result<Out, ErrKind>;

pub fn kind_of<T>(e: &Error<T>) -> ErrKind
where
    T: std::fmt::Debug,
{
    match e {
        Error::Io(_) => ErrKind::Io(0),
        Error::UnexpectedEof => ErrKind::UnexpectedEof,
        Error::WriteZero => ErrKind::WriteZero,
        Error::InvalidInput => ErrKind::InvalidInput,
        Error::NotFound => ErrKind::NotFound,
        Error::AlreadyExists => ErrKind::AlreadyExists,
        Error::DirectoryIsNotEmpty => ErrKind::DirectoryIsNotEmpty,
        Error::CorruptedFileSystem => ErrKind::CorruptedFileSystem,
        Error::NotEnoughSpace => ErrKind::NotEnoughSpace,
        Error::InvalidFileNameLength => ErrKind::InvalidFileNameLength,
        Error::UnsupportedFileNameCharacter => ErrKind::UnsupportedFileNameCharacter,
        _ => ErrKind::Other,
    }
}

pub fn ek(e: Error<DevErr>) -> ErrKind {
    match e {
        Error::Io(d) => ErrKind::Io(d.id),
        other => kind_of(&other),
    }
}

// ---------------------------------------------------------------- expectations

#[derive(Debug, Clone, PartialEq, Eq)]
pub enum SpaceNeed {
    /// a new directory entry of `units` UTF-16 units in `dir`, plus `extra` clusters
    Entry { dir: Nid, units: usize, extra: u32 },
    /// file data may need a new cluster
    Data,
}

#[derive(Debug, Clone, Default, PartialEq, Eq)]
pub struct Expect {
    /// non-empty: the call must fail, with one of `must` or `may`
    pub must: Vec<ErrKind>,
    pub may: Vec<ErrKind>,
    pub space: Option<SpaceNeed>,
    /// outcome not documented (astral characters, seeks beyond 2^32): anything but a panic goes
    pub undocumented: bool,
    /// model has no opinion on this op (e.g. Stats): result checked by a dedicated oracle
    pub no_opinion: bool,
}

// ---------------------------------------------------------------- plan / result

#[derive(Debug, Clone)]
pub struct Plan {
    /// (k, id): fail the k-th device call of the last operation (or of operation `fault_op`)
    pub fault: Option<(u64, u32)>,
    /// index of the operation the fault is armed for (None: the last one)
    pub fault_op: Option<usize>,
    /// make only the k-th read/write device call of the last operation a short transfer
    pub short_at: Option<u64>,
    /// device-call budget for the last operation
    pub budget: Option<u64>,
    pub suffix: bool,
    /// only drop handles and unmount in the suffix (no stats / flush / listing): for read-only sessions
    pub suffix_minimal: bool,
    pub log_data: bool,
    /// keep the device log of the whole session (not only of the last operation)
    pub log_all: bool,
    pub pre_decode: bool,
}

impl Default for Plan {
    fn default() -> Self {
        Plan { fault: None, fault_op: None, short_at: None, budget: Some(2_000_000), suffix: true, suffix_minimal: false, log_data: false, log_all: false, pre_decode: true }
    }
}

#[derive(Debug, Clone)]
pub struct LibNode {
    pub is_dir: bool,
    pub len: u64,
    pub attr: u8,
    pub short: String,
    pub content: Option<Vec<u8>>,
    pub created: DateTime,
    pub modified: DateTime,
    pub accessed: Date,
}

pub type LibTree = BTreeMap<String, LibNode>;

#[derive(Debug, Clone, Default)]
pub struct Suffix {
    /// stats() through the library at the call boundary
    pub stats_free: Option<Result<u32, ErrKind>>,
    /// per live file handle: (slot, nid, extents result, bytes read from the device at those ranges)
    pub extents: Vec<(usize, Nid, Result<Vec<(u64, u32)>, ErrKind>, Vec<u8>)>,
    pub flush_results: Vec<(usize, Result<(), ErrKind>)>,
    /// independent decode after all handles were flushed (no live-handle relaxation)
    pub flushed: Option<Result<Decoded, String>>,
    /// recursive listing + contents through the library (handles flushed, same session)
    pub lib_tree: Option<Result<LibTree, String>>,
    /// status byte after flushing handles (session still mounted)
    pub status_mounted: u8,
    /// abandon copy (handles flushed+dropped, not unmounted): decode and mount
    pub abandoned: Option<Result<Decoded, String>>,
    pub abandoned_flags: Option<Result<(bool, bool), ErrKind>>,
    pub unmount: Option<Result<(), ErrKind>>,
    pub status_unmounted: u8,
    pub final_decoded: Option<Result<Decoded, String>>,
    pub fsinfo: Option<(bool, bool, bool, u32, u32)>,
    pub remount_tree: Option<Result<LibTree, String>>,
    pub writes_in_suffix: u64,
    /// per non-root directory P: the names listed through the path "P/.." (same session / after remount)
    pub dotdot_session: Option<DotDotViews>,
    pub dotdot_remount: Option<DotDotViews>,
}

pub type DotDotViews = Vec<(String, Result<Vec<String>, String>)>;

/// what the library shows when a directory is reached through the `..` entry of each of its subdirectories
pub fn dotdot_views(fs: &Fs, tree: &LibTree) -> DotDotViews {
    let mut out = Vec::new();
    for (p, n) in tree {
        if !n.is_dir {
            continue;
        }
        let path = format!("{}/..", p.trim_start_matches('/'));
        let r = (|| -> Result<Vec<String>, String> {
            let d = fs.root_dir().open_dir(&path).map_err(|e| format!("open_dir({path}): {:?}", ek(e)))?;
            let mut names = Vec::new();
            for e in d.iter() {
                let e = e.map_err(|e| format!("iter error in {path}: {:?}", ek(e)))?;
                let name = e.file_name();
                if name != "." && name != ".." {
                    names.push(name);
                }
            }
            names.sort();
            Ok(names)
        })();
        out.push((p.clone(), r));
    }
    out
}

pub struct Exec {
    pub outs: Vec<Res>,
    pub expects: Vec<Expect>,
    /// (op index, message)
    pub panic: Option<(usize, String)>,
    pub mount_failures: Vec<(usize, ErrKind)>,
    pub model: Model,
    pub model_pre: Model,
    pub pre: Option<Result<Decoded, String>>,
    pub pre_overlay: BTreeMap<u64, Box<[u8; 512]>>,
    /// decode at the call boundary after the last op (live handles honoured)
    pub post: Option<Result<Decoded, String>>,
    pub live_post: Vec<LiveHandle>,
    pub live_pre: Vec<LiveHandle>,
    /// device log of the last op (or whole session when `log_all`)
    pub log: Vec<Rec>,
    pub last_op_log_start: usize,
    pub fired: Option<crate::dev::Fired>,
    /// fault fired during operation `Plan::fault_op` (not the last one)
    pub fired_early: Option<crate::dev::Fired>,
    pub budget_hit: bool,
    pub calls_last: u64,
    /// read/write device calls of the last operation
    pub rw_calls_last: u64,
    pub oob_write: bool,
    pub max_addr: u64,
    pub key: u128,
    pub suffix: Suffix,
    pub st: Rc<RefCell<DevState>>,
    pub ticks_pre: u32,
    pub ticks_post: u32,
    pub status_at_mount: u8,
    /// raw status byte in the image when the current mount epoch started
    pub status_byte_at_mount: u8,
    pub status_post: u8,
    /// image overlay at the call boundary (before the suffix flushes anything)
    pub boundary_overlay: BTreeMap<u64, Box<[u8; 512]>>,
    /// flags reported after mounting the image as abandoned at the call boundary
    pub abandoned_boundary_flags: Option<Result<(bool, bool), ErrKind>>,
    /// device log including the suffix's handle drops and unmount (when `log_all`)
    pub log_full: Vec<Rec>,
    pub fs_state_post: Option<fatfs::verif::FsState>,
    pub completed: bool,
    /// clock counter before/after every operation
    pub tick_ranges: Vec<(u32, u32)>,
    /// for a history that ends with Remount / DropRemount: (status byte at the mount of the session that was ended,
    /// status byte right after the unmount / drop, before the volume is mounted again)
    pub epoch_end_status: Option<(u8, u8)>,
    /// hidden cursor of every live file handle at the call boundary: (offset, current cluster)
    pub cursors: [Option<(u32, Option<u32>)>; crate::model::NFH],
    /// node id behind every file-handle slot after each operation (index = operation index)
    pub handle_nids: Vec<[Option<crate::model::Nid>; crate::model::NFH]>,
}

// ---------------------------------------------------------------- panic capture

thread_local! {
    static LAST_PANIC: RefCell<Option<String>> = const { RefCell::new(None) };
    static GUARD_DEPTH: Cell<u32> = const { Cell::new(0) };
}

pub fn install_panic_hook() {
    use std::sync::Once;
    static ONCE: Once = Once::new();
    ONCE.call_once(|| {
        std::panic::set_hook(Box::new(|info| {
            let msg = if let Some(s) = info.payload().downcast_ref::<&str>() {
                (*s).to_string()
            } else if let Some(s) = info.payload().downcast_ref::<String>() {
                s.clone()
            } else {
                "<non-string panic>".to_string()
            };
            let loc = info.location().map(|l| format!("{}:{}", l.file(), l.line())).unwrap_or_default();
            if GUARD_DEPTH.with(Cell::get) == 0 {
                // not inside a guarded library call: a harness bug, report loudly
                eprintln!("MACHINERY PANIC: {msg} @ {loc}");
            }
            LAST_PANIC.with(|p| *p.borrow_mut() = Some(format!("{msg} @ {loc}")));
        }));
    });
}

pub fn take_panic() -> String {
    LAST_PANIC.with(|p| p.borrow_mut().take()).unwrap_or_else(|| "<unknown panic>".into())
}

pub fn guarded<R>(f: impl FnOnce() -> R) -> Result<R, String> {
    GUARD_DEPTH.with(|d| d.set(d.get() + 1));
    let r = catch_unwind(AssertUnwindSafe(f));
    GUARD_DEPTH.with(|d| d.set(d.get() - 1));
    match r {
        Ok(r) => Ok(r),
        Err(_) => Err(take_panic()),
    }
}

// ---------------------------------------------------------------- helpers on the real library

pub fn mount(dev: MemDev, cfg: &Cfg, ctr: &Rc<Cell<u32>>) -> Result<Fs, Error<DevErr>> {
    let clock = Clock { ticking: cfg.ticking, ctr: ctr.clone() };
    // the strict flag defaults to true (the value used when nothing is said); whatever the order of the builder calls,
    // every option keeps the value it was given
    let opts = match cfg.opts_order {
        0 => FsOptions::new().time_provider(clock).update_accessed_date(cfg.atime),
        1 => FsOptions::new().update_accessed_date(cfg.atime).time_provider(clock),
        2 => FsOptions::new().update_accessed_date(cfg.atime).strict(true).oem_cp_converter(LossyOemCpConverter::new()).time_provider(clock),
        _ => {
            let o = FsOptions::new().strict(true).time_provider(clock).oem_cp_converter(LossyOemCpConverter::new());
            if cfg.atime {
                o.update_accessed_date(true)
            } else {
                o
            }
        }
    };
    FileSystem::new(dev, opts)
}

fn list_dir(dir: &FDir, only_first: bool) -> Result<Vec<ListEntry>, ErrKind> {
    let mut out = Vec::new();
    let mut it = dir.iter();
    loop {
        let Some(r) = it.next() else { break };
        match r {
            Ok(e) => {
                out.push(ListEntry {
                    name: e.file_name(),
                    short: e.short_file_name(),
                    is_dir: e.is_dir(),
                    len: e.len(),
                    attr: e.attributes().bits(),
                    units: e.long_file_name_as_ucs2_units().map(<[u16]>::to_vec),
                });
                if only_first {
                    break;
                }
            }
            // (whether the iterator ends, repeats the error or carries on after yielding an error is not prescribed:
            // the caller has been told)
            Err(e) => return Err(ek(e)),
        }
        if out.len() > 100_000 {
            return Err(ErrKind::Other);
        }
    }
    Ok(out)
}

pub fn read_all(f: &mut FFile, cap: usize) -> Result<Vec<u8>, ErrKind> {
    let mut out = Vec::new();
    let mut buf = vec![0u8; 4096];
    loop {
        let n = f.read(&mut buf).map_err(ek)?;
        if n == 0 {
            break;
        }
        out.extend_from_slice(&buf[..n]);
        if out.len() > cap {
            return Err(ErrKind::Other);
        }
    }
    Ok(out)
}

pub fn lib_tree(fs: &Fs) -> Result<LibTree, String> {
    let mut out = BTreeMap::new();
    fn rec(dir: &FDir, path: &str, out: &mut LibTree, depth: u32) -> Result<(), String> {
        if depth > 12 {
            return Err("directory nesting > 12".into());
        }
        for r in dir.iter() {
            let e = r.map_err(|e| format!("iter error in {path}: {:?}", ek(e)))?;
            let name = e.file_name();
            if name == "." || name == ".." {
                continue;
            }
            let p = if path == "/" { format!("/{name}") } else { format!("{path}/{name}") };
            let mut node = LibNode {
                is_dir: e.is_dir(),
                len: e.len(),
                attr: e.attributes().bits(),
                short: e.short_file_name(),
                content: None,
                created: e.created(),
                modified: e.modified(),
                accessed: e.accessed(),
            };
            if e.is_dir() {
                out.insert(p.clone(), node);
                rec(&e.to_dir(), &p, out, depth + 1)?;
            } else {
                let mut f = e.to_file();
                node.content = Some(read_all(&mut f, 64 << 20).map_err(|k| format!("read error in {p}: {k:?}"))?);
                out.insert(p, node);
            }
            if out.len() > 50_000 {
                return Err("too many entries".into());
            }
        }
        Ok(())
    }
    rec(&fs.root_dir(), "/", &mut out, 0)?;
    Ok(out)
}

// ---------------------------------------------------------------- the run

struct Slots<'a> {
    files: [Option<FFile<'a>>; NFH],
    dirs: [Option<FDir<'a>>; NDH],
}

enum EpochEnd {
    Done,
    Remount(usize),
    DropRemount(usize),
    Abandon(usize),
    Panicked,
}

struct RunCtx<'p> {
    cfg: &'p Cfg,
    ops: &'p [Op],
    plan: &'p Plan,
    st: Rc<RefCell<DevState>>,
    ctr: Rc<Cell<u32>>,
    ex: Exec,
}

fn live_handles(slots: &Slots) -> Vec<LiveHandle> {
    let mut v = Vec::new();
    for f in slots.files.iter().flatten() {
        let s = f.verif_state();
        if let Some((pos, _dirty, _bytes)) = s.entry {
            v.push(LiveHandle { entry_abs: pos, first_cluster: s.first_cluster });
        }
    }
    v
}

/// candidate clusters for a sparse allocation scan: the configured free set plus every entry
/// whose FAT word lies in a page that differs from the base image (so the scan is exact).
pub fn sparse_candidates(st: &DevState, base_cands: &[u32]) -> Vec<u32> {
    let mut cands = base_cands.to_vec();
    let boot = st.read_vec(0, 512);
    if let Ok(g) = decoder::parse_raw(&boot) {
        let fb = g.fat_bytes();
        if fb > 0 {
            let start = g.fat_off(0);
            let end = start + fb * g.nfats as u64;
            for pno in st.overlay.keys() {
                let off = pno * 512;
                if off + 512 <= start || off >= end {
                    continue;
                }
                let rel0 = off.saturating_sub(start) % fb;
                let (lo, hi) = match g.width {
                    12 => ((rel0 * 2 / 3).saturating_sub(1), (rel0 + 512) * 2 / 3 + 1),
                    16 => (rel0 / 2, (rel0 + 512) / 2),
                    _ => (rel0 / 4, (rel0 + 512) / 4),
                };
                for c in lo..=hi {
                    if c >= 2 && c <= g.max_cluster() as u64 {
                        cands.push(c as u32);
                    }
                }
            }
        }
    }
    cands.sort_unstable();
    cands.dedup();
    cands
}

pub fn decode_dev(st: &DevState, cfg: &Cfg, live: &[LiveHandle]) -> Result<Decoded, String> {
    match &cfg.candidates {
        Some(c) => {
            let cands = sparse_candidates(st, c);
            decoder::decode(st, &DecodeOpts { live, candidates: Some(&cands), ..Default::default() })
        }
        None => decoder::decode(st, &DecodeOpts { live, ..Default::default() }),
    }
}

fn decode_now(cx: &RunCtx, live: &[LiveHandle]) -> Result<Decoded, String> {
    let st = cx.st.borrow();
    decode_dev(&st, cx.cfg, live)
}

fn base_dir<'s, 'a>(fs: &'a Fs, slots: &'s Slots<'a>, r: DirRef) -> Option<FDir<'a>> {
    match r {
        DirRef::Root => Some(fs.root_dir()),
        DirRef::H(i) => slots.dirs[i as usize].as_ref().cloned(),
    }
}

fn base_nid(m: &Model, r: DirRef) -> Option<Nid> {
    match r {
        DirRef::Root => Some(ROOT),
        DirRef::H(i) => m.dh[i as usize].as_ref().map(|h| h.nid),
    }
}

/// Is `op` enabled in model state `m` (documented preconditions, slot discipline)?
pub fn enabled(m: &Model, op: &Op) -> bool {
    let fh_free = |k: &Option<u8>| k.map_or(true, |s| m.fh[s as usize].is_none());
    let dh_free = |k: &Option<u8>| k.map_or(true, |s| m.dh[s as usize].is_none());
    match op {
        Op::CreateFile { base, path, keep } | Op::OpenFile { base, path, keep } => {
            let Some(b) = base_nid(m, *base) else { return false };
            if !fh_free(keep) {
                return false;
            }
            // never two handles on one file (documented precondition)
            if let Resolve::Found(n) = m.resolve(b, path) {
                if m.file_handle_on(n).is_some() {
                    return false;
                }
            }
            true
        }
        Op::CreateDir { base, path, keep } | Op::OpenDir { base, path, keep } => {
            let Some(_b) = base_nid(m, *base) else { return false };
            dh_free(keep)
        }
        Op::List { base, .. } | Op::ListOne { base, .. } => base_nid(m, *base).is_some(),
        Op::Remove { base, path } => {
            let Some(b) = base_nid(m, *base) else { return false };
            if let Resolve::Found(n) = m.resolve(b, path) {
                if m.has_handle(n) {
                    return false;
                }
            }
            true
        }
        Op::Rename { base, src, dst_base, dst } => {
            let (Some(b), Some(d)) = (base_nid(m, *base), base_nid(m, *dst_base)) else { return false };
            if let Resolve::Found(n) = m.resolve(b, src) {
                if m.has_handle(n) {
                    return false;
                }
            }
            let _ = (d, dst);
            true
        }
        Op::Write { h, .. }
        | Op::WriteAll { h, .. }
        | Op::Fill { h, .. }
        | Op::Read { h, .. }
        | Op::ReadExact { h, .. }
        | Op::Seek { h, .. }
        | Op::Truncate { h }
        | Op::Flush { h }
        | Op::DropFile { h }
        | Op::Extents { h }
        | Op::CloneFile { h }
        | Op::SetTime { h, .. } => m.fh[*h as usize].is_some(),
        Op::DropDir { d } => m.dh[*d as usize].is_some(),
        Op::Stats | Op::StatusFlags | Op::Label | Op::Meta | Op::Remount | Op::DropRemount | Op::Abandon => true,
    }
}

fn handle_nids(m: &Model) -> [Option<crate::model::Nid>; crate::model::NFH] {
    let mut a = [None; crate::model::NFH];
    for (i, h) in m.fh.iter().enumerate() {
        a[i] = h.as_ref().map(|h| h.nid);
    }
    a
}

/// the last path component is "." or ".."
pub fn dot_target(path: &str) -> bool {
    matches!(model::split(path).last(), Some(&".") | Some(&".."))
}

fn name_units(name: &str) -> usize {
    name.encode_utf16().count()
}

/// Model transition. Returns what the model expects of the call; the model is updated from the
/// observed result (`res`) only as far as the model itself defines the effect.
pub fn model_step(m: &mut Model, op: &Op, res: &Res, ticks: (u32, u32), atime: bool) -> Expect {
    use crate::model::Stamp;
    let now = Stamp::Range(ticks.0, ticks.1);
    let mut ex = Expect::default();
    let ok = res.is_ok();
    let through = |ex: &mut Expect| {
        ex.must = vec![ErrKind::InvalidInput, ErrKind::NotFound];
    };
    match op {
        Op::CreateFile { base, path, keep } | Op::CreateDir { base, path, keep } => {
            let want_dir = matches!(op, Op::CreateDir { .. });
            let b = base_nid(m, *base).unwrap();
            let last = model::split(path).last().map(|s| (*s).to_string()).unwrap_or_default();
            let (nerrs, undoc) = model::name_errors(&last);
            match m.resolve(b, path) {
                Resolve::Found(n) => {
                    if m.is_dir(n) != want_dir {
                        ex.must = vec![ErrKind::InvalidInput];
                    } else if ok {
                        open_handle(m, n, want_dir, *keep);
                    }
                }
                Resolve::Missing(parent, name) => {
                    if !nerrs.is_empty() {
                        ex.must = nerrs;
                    } else {
                        ex.undocumented = undoc;
                        ex.space = Some(SpaceNeed::Entry {
                            dir: parent,
                            units: name_units(&name),
                            extra: if want_dir { 1 } else { 0 },
                        });
                        if ok {
                            let n = m.add(parent, &name, want_dir);
                            m.nodes.get_mut(&n).unwrap().stamps = crate::model::Stamps { created: now, modified: now, accessed: now };
                            m.changed_since_mount = true;
                            open_handle(m, n, want_dir, *keep);
                        }
                    }
                }
                Resolve::NoParent => {
                    ex.must = vec![ErrKind::NotFound];
                    ex.may = nerrs;
                }
                Resolve::ThroughFile => {
                    through(&mut ex);
                    ex.may = nerrs;
                }
            }
        }
        Op::OpenFile { base, path, keep } | Op::OpenDir { base, path, keep } => {
            let want_dir = matches!(op, Op::OpenDir { .. });
            let b = base_nid(m, *base).unwrap();
            match m.resolve(b, path) {
                Resolve::Found(n) => {
                    if m.is_dir(n) != want_dir {
                        ex.must = vec![ErrKind::InvalidInput];
                    } else if ok {
                        open_handle(m, n, want_dir, *keep);
                    }
                }
                Resolve::Missing(..) | Resolve::NoParent => ex.must = vec![ErrKind::NotFound],
                Resolve::ThroughFile => through(&mut ex),
            }
        }
        Op::List { base, path } | Op::ListOne { base, path } => {
            let b = base_nid(m, *base).unwrap();
            if !model::split(path).is_empty() {
                match m.resolve(b, path) {
                    Resolve::Found(n) => {
                        if !m.is_dir(n) {
                            ex.must = vec![ErrKind::InvalidInput];
                        }
                    }
                    Resolve::Missing(..) | Resolve::NoParent => ex.must = vec![ErrKind::NotFound],
                    Resolve::ThroughFile => through(&mut ex),
                }
            }
        }
        Op::Remove { base, path } if dot_target(path) => {
            // "." / ".." as the entry to remove: the tree model does not define dot components; the one thing every
            // reading agrees on is that a directory's own dot entries cannot be removed (refused with either kind)
            let _ = base;
            ex.must = vec![ErrKind::InvalidInput, ErrKind::NotFound];
        }
        Op::Rename { src, .. } if dot_target(src) => {
            ex.must = vec![ErrKind::InvalidInput, ErrKind::NotFound];
        }
        Op::Remove { base, path } => {
            let b = base_nid(m, *base).unwrap();
            match m.resolve(b, path) {
                Resolve::Found(n) => {
                    let nonempty = m.children(n).map_or(false, |c| !c.is_empty());
                    if nonempty {
                        ex.must = vec![ErrKind::DirectoryIsNotEmpty];
                    } else if ok {
                        m.remove(n);
                        m.changed_since_mount = true;
                    }
                }
                Resolve::Missing(..) | Resolve::NoParent => ex.must = vec![ErrKind::NotFound],
                Resolve::ThroughFile => through(&mut ex),
            }
        }
        Op::Rename { base, src, dst_base, dst } => {
            let b = base_nid(m, *base).unwrap();
            let d = base_nid(m, *dst_base).unwrap();
            let last = model::split(dst).last().map(|s| (*s).to_string()).unwrap_or_default();
            let (nerrs, undoc) = model::name_errors(&last);
            let rs = m.resolve(b, src);
            let rd = m.resolve(d, dst);
            let mut must = Vec::new();
            let mut may = Vec::new();
            let srcn = match rs {
                Resolve::Found(n) => Some(n),
                Resolve::Missing(..) | Resolve::NoParent => {
                    must.push(ErrKind::NotFound);
                    None
                }
                Resolve::ThroughFile => {
                    must.push(ErrKind::InvalidInput);
                    must.push(ErrKind::NotFound);
                    None
                }
            };
            match rd {
                Resolve::Found(t) => {
                    if srcn == Some(t) {
                        // same entry: no-op (only if src resolved)
                    } else {
                        if let Some(n) = srcn {
                            must.push(ErrKind::AlreadyExists);
                            // the destination exists AND lies inside the directory that is being moved: both
                            // documented kinds apply (decision 3.2(4): any applicable kind is accepted)
                            if m.is_dir(n) && m.is_ancestor(n, t) {
                                must.push(ErrKind::InvalidInput);
                            }
                        } else {
                            may.push(ErrKind::AlreadyExists);
                        }
                    }
                }
                Resolve::Missing(parent, name) => {
                    if !nerrs.is_empty() {
                        if let Some(n) = srcn {
                            must.extend(nerrs.iter().copied());
                            // (the destination also lies inside the directory that is being moved)
                            if m.is_dir(n) && m.is_ancestor(n, parent) {
                                must.push(ErrKind::InvalidInput);
                            }
                        } else {
                            may.extend(nerrs.iter().copied());
                        }
                    } else if let Some(n) = srcn {
                        if m.is_dir(n) && m.is_ancestor(n, parent) {
                            // a directory cannot be moved into its own subtree
                            must.push(ErrKind::InvalidInput);
                        } else {
                            ex.undocumented = undoc;
                            ex.space = Some(SpaceNeed::Entry { dir: parent, units: name_units(&name), extra: 0 });
                            if ok {
                                m.move_node(n, parent, &name);
                                m.changed_since_mount = true;
                            }
                        }
                    }
                }
                Resolve::NoParent => {
                    if srcn.is_some() {
                        must.push(ErrKind::NotFound);
                    }
                    may.extend(nerrs.iter().copied());
                }
                Resolve::ThroughFile => {
                    if srcn.is_some() {
                        must.push(ErrKind::InvalidInput);
                        must.push(ErrKind::NotFound);
                    } else {
                        may.push(ErrKind::InvalidInput);
                    }
                    may.extend(nerrs.iter().copied());
                }
            }
            ex.must = must;
            ex.may = may;
        }
        Op::Write { h, len } => {
            ex.space = Some(SpaceNeed::Data);
            if let Ok(Out::Count(n)) = res {
                apply_write(m, *h as usize, *n, *len as u64);
                if *n > 0 {
                    let nid = m.fh[*h as usize].as_ref().unwrap().nid;
                    m.nodes.get_mut(&nid).unwrap().stamps.modified = now;
                }
            }
        }
        Op::WriteAll { h, .. } | Op::Fill { h, .. } => {
            ex.space = Some(SpaceNeed::Data);
            if let Ok(Out::Progress { accepted, .. }) = res {
                apply_write(m, *h as usize, *accepted, *accepted);
                if *accepted > 0 {
                    let nid = m.fh[*h as usize].as_ref().unwrap().nid;
                    m.nodes.get_mut(&nid).unwrap().stamps.modified = now;
                }
            }
        }
        Op::Read { h, .. } | Op::ReadExact { h, .. } => {
            if let Ok(Out::Bytes(b)) = res {
                let hd = m.fh[*h as usize].as_mut().unwrap();
                hd.pos += b.len() as u64;
                if !b.is_empty() && atime {
                    hd.dirty = true;
                    let nid = hd.nid;
                    m.nodes.get_mut(&nid).unwrap().stamps.accessed = now;
                }
            }
        }
        Op::Seek { h, pos } => {
            let hd = m.fh[*h as usize].clone().unwrap();
            let size = m.nodes[&hd.nid].data.len() as i128;
            let target: i128 = match pos {
                SeekSpec::Start(x) => *x as i128,
                SeekSpec::Current(d) => hd.pos as i128 + *d as i128,
                SeekSpec::End(d) => size + *d as i128,
            };
            if target < 0 {
                ex.must = vec![ErrKind::InvalidInput];
            } else if target > u32::MAX as i128 {
                // beyond the 32-bit offset domain: clamp or InvalidInput are both accepted
                ex.undocumented = true;
                ex.may = vec![ErrKind::InvalidInput];
            }
            if let Ok(Out::Pos(p)) = res {
                m.fh[*h as usize].as_mut().unwrap().pos = *p;
            }
        }
        Op::Truncate { h } => {
            if ok {
                let hd = m.fh[*h as usize].as_mut().unwrap();
                hd.dirty = true;
                let (nid, pos) = (hd.nid, hd.pos);
                let node = m.nodes.get_mut(&nid).unwrap();
                if (pos as usize) < node.data.len() {
                    node.data.truncate(pos as usize);
                    m.changed_since_mount = true;
                }
            }
        }
        Op::Flush { h } => {
            if ok {
                m.fh[*h as usize].as_mut().unwrap().dirty = false;
            }
        }
        Op::DropFile { h } => {
            m.fh[*h as usize] = None;
        }
        Op::DropDir { d } => {
            m.dh[*d as usize] = None;
        }
        Op::SetTime { h, which, tick } => {
            let hd = m.fh[*h as usize].as_mut().unwrap();
            hd.dirty = true;
            let nid = hd.nid;
            let st = &mut m.nodes.get_mut(&nid).unwrap().stamps;
            match which {
                Which::Created => st.created = Stamp::Exact(*tick),
                Which::Modified => st.modified = Stamp::Exact(*tick),
                Which::Accessed => st.accessed = Stamp::Exact(*tick),
            }
        }
        Op::Extents { .. } | Op::Stats | Op::StatusFlags | Op::Label | Op::Meta => {
            ex.no_opinion = true;
        }
        Op::CloneFile { .. } => {
            // the model does not change: same file, same cursor, same pending metadata
        }
        Op::Remount | Op::DropRemount | Op::Abandon => {
            m.close_all();
            m.changed_since_mount = false;
            m.mounts += 1;
        }
    }
    ex
}

fn open_handle(m: &mut Model, n: Nid, is_dir: bool, keep: Option<u8>) {
    if let Some(s) = keep {
        if is_dir {
            m.dh[s as usize] = Some(MDirHandle { nid: n });
        } else {
            m.opens += 1;
            m.fh[s as usize] = Some(MFileHandle { nid: n, pos: 0, dirty: false, gen: m.opens });
        }
    }
}

fn apply_write(m: &mut Model, h: usize, accepted: u64, _asked: u64) {
    if accepted == 0 {
        return;
    }
    let hd = m.fh[h].as_mut().unwrap();
    let (nid, pos, gen) = (hd.nid, hd.pos, hd.gen);
    hd.pos += accepted;
    hd.dirty = true;
    hd.gen += 1;
    let node = m.nodes.get_mut(&nid).unwrap();
    let end = (pos + accepted) as usize;
    let old_len = node.data.len();
    if node.data.len() < end {
        node.data.resize(end, 0);
    }
    for i in 0..accepted {
        let old = node.data[(pos + i) as usize];
        // (bytes beyond the old end were just created by the resize: no old content there)
        let had = (pos + i) < old_len as u64;
        node.data[(pos + i) as usize] = fresh_byte(if had { Some(old) } else { None }, nid, pos + i, gen);
    }
    m.changed_since_mount = true;
}

/// the byte a write stores at `off`: the pattern of the handle's write generation, but never the byte that is already
/// there (every modelled write really changes the data it covers; a library that skips rewriting equal bytes is right)
fn fresh_byte(old: Option<u8>, nid: Nid, off: u64, gen: u32) -> u8 {
    for d in 0..3 {
        let b = model::pattern(nid, off, gen + d);
        if Some(b) != old {
            return b;
        }
    }
    model::pattern(nid, off, gen) ^ 0x40
}

fn write_buf(m: &Model, h: usize, len: u64) -> Vec<u8> {
    let hd = m.fh[h].as_ref().unwrap();
    let data = &m.nodes[&hd.nid].data;
    (0..len).map(|i| fresh_byte(data.get((hd.pos + i) as usize).copied(), hd.nid, hd.pos + i, hd.gen)).collect()
}

fn exec_op<'a>(fs: &'a Fs, slots: &mut Slots<'a>, m: &Model, op: &Op, cluster_size: u32) -> Res {
    match op {
        Op::CreateFile { base, path, keep } => {
            let d = base_dir(fs, slots, *base).unwrap();
            let f = d.create_file(path).map_err(ek)?;
            match keep {
                Some(s) => slots.files[*s as usize] = Some(f),
                None => drop(f),
            }
            Ok(Out::Unit)
        }
        Op::OpenFile { base, path, keep } => {
            let d = base_dir(fs, slots, *base).unwrap();
            let f = d.open_file(path).map_err(ek)?;
            match keep {
                Some(s) => slots.files[*s as usize] = Some(f),
                None => drop(f),
            }
            Ok(Out::Unit)
        }
        Op::CreateDir { base, path, keep } => {
            let d = base_dir(fs, slots, *base).unwrap();
            let nd = d.create_dir(path).map_err(ek)?;
            if let Some(s) = keep {
                slots.dirs[*s as usize] = Some(nd);
            }
            Ok(Out::Unit)
        }
        Op::OpenDir { base, path, keep } => {
            let d = base_dir(fs, slots, *base).unwrap();
            let nd = d.open_dir(path).map_err(ek)?;
            if let Some(s) = keep {
                slots.dirs[*s as usize] = Some(nd);
            }
            Ok(Out::Unit)
        }
        Op::List { base, path } | Op::ListOne { base, path } => {
            let d = base_dir(fs, slots, *base).unwrap();
            let d = if model::split(path).is_empty() { d } else { d.open_dir(path).map_err(ek)? };
            let l = list_dir(&d, matches!(op, Op::ListOne { .. }))?;
            Ok(Out::Listing(l))
        }
        Op::Remove { base, path } => {
            let d = base_dir(fs, slots, *base).unwrap();
            d.remove(path).map_err(ek)?;
            Ok(Out::Unit)
        }
        Op::Rename { base, src, dst_base, dst } => {
            let d = base_dir(fs, slots, *base).unwrap();
            let dd = base_dir(fs, slots, *dst_base).unwrap();
            d.rename(src, &dd, dst).map_err(ek)?;
            Ok(Out::Unit)
        }
        Op::Write { h, len } => {
            let buf = write_buf(m, *h as usize, *len as u64);
            let f = slots.files[*h as usize].as_mut().unwrap();
            let n = f.write(&buf).map_err(ek)?;
            Ok(Out::Count(n as u64))
        }
        Op::WriteAll { h, len } => {
            let buf = write_buf(m, *h as usize, *len as u64);
            let f = slots.files[*h as usize].as_mut().unwrap();
            let before = f.seek(SeekFrom::Current(0)).map_err(ek)?;
            match f.write_all(&buf) {
                Ok(()) => Ok(Out::Progress { accepted: *len as u64, err: None }),
                Err(e) => {
                    let k = ek(e);
                    let after = f.seek(SeekFrom::Current(0)).map_err(ek)?;
                    Ok(Out::Progress { accepted: after.saturating_sub(before), err: Some(k) })
                }
            }
        }
        Op::Fill { h, max } => {
            let mut accepted = 0u64;
            let mut err = None;
            // buffer must follow the pattern of a single write generation
            let buf = write_buf(m, *h as usize, *max as u64 * cluster_size as u64);
            let f = slots.files[*h as usize].as_mut().unwrap();
            for _ in 0..*max {
                let s = accepted as usize;
                match f.write(&buf[s..s + cluster_size as usize]) {
                    Ok(0) => break,
                    Ok(n) => accepted += n as u64,
                    Err(e) => {
                        err = Some(ek(e));
                        break;
                    }
                }
            }
            Ok(Out::Progress { accepted, err })
        }
        Op::Read { h, len } => {
            let f = slots.files[*h as usize].as_mut().unwrap();
            let mut buf = vec![0xA5u8; *len as usize];
            let n = f.read(&mut buf).map_err(ek)?;
            buf.truncate(n);
            Ok(Out::Bytes(buf))
        }
        Op::ReadExact { h, len } => {
            let f = slots.files[*h as usize].as_mut().unwrap();
            let mut buf = vec![0xA5u8; *len as usize];
            let before = f.seek(SeekFrom::Current(0)).map_err(ek)?;
            match f.read_exact(&mut buf) {
                Ok(()) => Ok(Out::Bytes(buf)),
                Err(e) => {
                    let k = ek(e);
                    if k == ErrKind::UnexpectedEof {
                        let after = f.seek(SeekFrom::Current(0)).map_err(ek)?;
                        buf.truncate((after - before) as usize);
                        Ok(Out::Bytes(buf))
                    } else {
                        Err(k)
                    }
                }
            }
        }
        Op::Seek { h, pos } => {
            let f = slots.files[*h as usize].as_mut().unwrap();
            let p = match pos {
                SeekSpec::Start(x) => SeekFrom::Start(*x),
                SeekSpec::Current(d) => SeekFrom::Current(*d),
                SeekSpec::End(d) => SeekFrom::End(*d),
            };
            Ok(Out::Pos(f.seek(p).map_err(ek)?))
        }
        Op::Truncate { h } => {
            let f = slots.files[*h as usize].as_mut().unwrap();
            f.truncate().map_err(ek)?;
            Ok(Out::Unit)
        }
        Op::Flush { h } => {
            let f = slots.files[*h as usize].as_mut().unwrap();
            f.flush().map_err(ek)?;
            Ok(Out::Unit)
        }
        Op::DropFile { h } => {
            slots.files[*h as usize] = None;
            Ok(Out::Unit)
        }
        Op::DropDir { d } => {
            slots.dirs[*d as usize] = None;
            Ok(Out::Unit)
        }
        Op::Extents { h } => {
            let f = slots.files[*h as usize].as_mut().unwrap();
            let mut v = Vec::new();
            let mut it = f.extents();
            while let Some(r) = it.next() {
                match r {
                    Ok(e) => v.push((e.offset, e.size)),
                    // (whether the iterator ends, repeats the error or carries on after yielding an error is not
                    // prescribed: the caller has been told)
                    Err(e) => return Err(ek(e)),
                }
                if v.len() > 1_000_000 {
                    return Err(ErrKind::Other);
                }
            }
            Ok(Out::Extents(v))
        }
        Op::CloneFile { h } => {
            let f = slots.files[*h as usize].take().unwrap();
            let c = f.clone();
            drop(f);
            slots.files[*h as usize] = Some(c);
            Ok(Out::Unit)
        }
        Op::SetTime { h, which, tick } => {
            let f = slots.files[*h as usize].as_mut().unwrap();
            let t = instant(*tick);
            match which {
                Which::Created => f.set_created(t),
                Which::Modified => f.set_modified(t),
                Which::Accessed => f.set_accessed(t.date),
            }
            Ok(Out::Unit)
        }
        Op::Stats => {
            let s = fs.stats().map_err(ek)?;
            Ok(Out::Stats { free: s.free_clusters(), total: s.total_clusters(), cs: s.cluster_size() })
        }
        Op::StatusFlags => {
            let s = fs.read_status_flags().map_err(ek)?;
            Ok(Out::Flags { dirty: s.dirty(), io: s.io_error() })
        }
        Op::Label => {
            let a = fs.read_volume_label_from_root_dir_as_bytes().map_err(ek)?;
            let _b = fs.read_volume_label_from_root_dir().map_err(ek)?;
            Ok(Out::Label(a.map(|x| x.to_vec()), fs.volume_label()))
        }
        Op::Meta => {
            let _ = (fs.fat_type(), fs.volume_id(), fs.cluster_size(), fs.volume_label_as_bytes().len());
            Ok(Out::Unit)
        }
        Op::Remount | Op::DropRemount | Op::Abandon => unreachable!(),
    }
}

fn state_key(cx: &RunCtx, fs: &Fs, slots: &Slots) -> u128 {
    use std::hash::{Hash, Hasher};
    let mut h1 = std::collections::hash_map::DefaultHasher::new();
    let mut h2 = std::collections::hash_map::DefaultHasher::new();
    0xA5A5_5A5Au32.hash(&mut h2);
    let st = cx.st.borrow();
    let ov = st.canonical_overlay();
    let mut feed = |f: &dyn Fn(&mut std::collections::hash_map::DefaultHasher)| {
        f(&mut h1);
        f(&mut h2);
    };
    feed(&|h| {
        for (p, b) in &ov {
            p.hash(h);
            b.hash(h);
        }
    });
    let fst = fs.verif_state();
    feed(&|h| fst.hash(h));
    for f in &slots.files {
        let s = f.as_ref().map(|f| f.verif_state());
        feed(&|h| s.hash(h));
    }
    for d in &slots.dirs {
        let s = d.as_ref().map(|d| d.verif_state());
        feed(&|h| s.hash(h));
    }
    let c = cx.ctr.get();
    feed(&|h| c.hash(h));
    // model-only state
    let m = &cx.ex.model;
    feed(&|h| {
        m.changed_since_mount.hash(h);
        (m.opens % 3).hash(h);
        for f in &m.fh {
            f.as_ref().map(|f| (f.nid, f.pos, f.dirty, f.gen % 3)).hash(h);
        }
        for d in &m.dh {
            d.as_ref().map(|d| d.nid).hash(h);
        }
        for (id, n) in &m.nodes {
            id.hash(h);
            n.given.hash(h);
            n.alias.hash(h);
            n.parent.hash(h);
            n.data.hash(h);
        }
    });
    ((h1.finish() as u128) << 64) | h2.finish() as u128
}

/// update observed aliases of nodes whose alias is unknown (after create / rename)
fn observe_aliases(m: &mut Model, d: &Decoded) {
    let ids: Vec<Nid> = m.nodes.iter().filter(|(id, n)| **id != ROOT && n.alias.is_empty()).map(|(id, _)| *id).collect();
    for id in ids {
        let p = m.path_of(id);
        if let Some(e) = d.find_entry(&p) {
            let disp = decoder::short_display(&e.sfn, 0);
            m.nodes.get_mut(&id).unwrap().alias = disp;
        }
    }
}

fn run_epoch<'a>(fs: &'a Fs, cx: &mut RunCtx, i: &mut usize) -> EpochEnd {
    let mut slots: Slots<'a> = Slots { files: Default::default(), dirs: Default::default() };
    let cs = fs.cluster_size();
    let n = cx.ops.len();
    while *i < n {
        let op = &cx.ops[*i];
        let is_last = *i + 1 == n;
        match op {
            Op::Remount => {
                return finish_epoch(slots, cx, EpochEnd::Remount(*i));
            }
            Op::DropRemount => {
                return finish_epoch(slots, cx, EpochEnd::DropRemount(*i));
            }
            Op::Abandon => {
                // leak handles: no destructor runs
                std::mem::forget(slots);
                return EpochEnd::Abandon(*i);
            }
            _ => {}
        }
        if is_last {
            prepare_last(cx, Some(&slots));
        }
        let armed_here = cx.plan.fault_op == Some(*i) && !is_last;
        if armed_here {
            cx.st.borrow_mut().arm(cx.plan.fault, cx.plan.budget);
        }
        cx.st.borrow_mut().op_idx = *i as u32;
        let t_before = cx.ctr.get();
        let m_snapshot = cx.ex.model.clone();
        let r = {
            let slots_ref = &mut slots;
            guarded(|| exec_op(fs, slots_ref, &m_snapshot, op, cs))
        };
        let res = match r {
            Ok(res) => res,
            Err(msg) => {
                cx.ex.panic = Some((*i, msg));
                cx.ex.outs.push(Err(ErrKind::Other));
                cx.ex.expects.push(Expect::default());
                if is_last {
                    after_last_counters(cx);
                }
                std::mem::forget(slots);
                return EpochEnd::Panicked;
            }
        };
        if is_last {
            after_last_counters(cx);
        }
        if armed_here {
            let mut st = cx.st.borrow_mut();
            cx.ex.fired_early = st.fired;
            st.disarm();
            st.fired = None;
        }
        let t_after = cx.ctr.get();
        let expect = model_step(&mut cx.ex.model, op, &res, (t_before, t_after), cx.cfg.atime);
        cx.ex.tick_ranges.push((t_before, t_after));
        cx.ex.handle_nids.push(handle_nids(&cx.ex.model));
        let needs_alias = res.is_ok() && matches!(op, Op::CreateFile { .. } | Op::CreateDir { .. } | Op::Rename { .. });
        cx.ex.outs.push(res);
        cx.ex.expects.push(expect);
        if needs_alias && !is_last && cx.ex.model.nodes.values().any(|n| n.alias.is_empty() && !n.given.is_empty()) {
            let live = live_handles(&slots);
            if let Ok(d) = decode_now(cx, &live) {
                observe_aliases(&mut cx.ex.model, &d);
            }
        }
        *i += 1;
    }
    // end of history: boundary observations with live handles
    let r = guarded(|| boundary(fs, &mut slots, cx));
    if let Err(msg) = r {
        cx.ex.panic = Some((n, format!("panic in observation suffix: {msg}")));
        std::mem::forget(slots);
        return EpochEnd::Panicked;
    }
    finish_epoch(slots, cx, EpochEnd::Done)
}

fn finish_epoch(slots: Slots, cx: &mut RunCtx, end: EpochEnd) -> EpochEnd {
    // drop handles in slot order (files first)
    let r = guarded(move || {
        let Slots { files, dirs } = slots;
        for f in files {
            drop(f);
        }
        for d in dirs {
            drop(d);
        }
    });
    if let Err(msg) = r {
        cx.ex.panic = Some((cx.ex.outs.len(), format!("panic while dropping handles: {msg}")));
        return EpochEnd::Panicked;
    }
    end
}

fn prepare_last(cx: &mut RunCtx, slots: Option<&Slots>) {
    let live = slots.map(live_handles).unwrap_or_default();
    cx.ex.model_pre = cx.ex.model.clone();
    cx.ex.ticks_pre = cx.ctr.get();
    if cx.plan.pre_decode {
        cx.ex.pre = Some(decode_now(cx, &live));
        if let Some(Ok(d)) = &cx.ex.pre {
            let d = d.clone();
            observe_aliases(&mut cx.ex.model, &d);
            cx.ex.model_pre = cx.ex.model.clone();
        }
    }
    cx.ex.live_pre = live;
    let mut st = cx.st.borrow_mut();
    cx.ex.pre_overlay = st.clone_overlay();
    if !cx.plan.log_all {
        st.log.clear();
    }
    cx.ex.last_op_log_start = st.log.len();
    st.logging = true;
    st.log_data = cx.plan.log_data;
    let fault = if cx.plan.fault_op.is_none() { cx.plan.fault } else { None };
    st.arm(fault, cx.plan.budget);
    if let Some(k) = cx.plan.short_at {
        st.short = Short::At(k);
    }
}

fn after_last_counters(cx: &mut RunCtx) {
    let mut st = cx.st.borrow_mut();
    cx.ex.fired = st.fired;
    cx.ex.budget_hit = st.budget_hit;
    cx.ex.calls_last = st.calls;
    cx.ex.rw_calls_last = st.rw_calls;
    st.disarm();
    if cx.plan.short_at.is_some() {
        st.short = cx.cfg.short;
    }
    cx.ex.ticks_post = cx.ctr.get();
}

/// observations at the call boundary after the last operation (handles alive)
fn boundary<'a>(fs: &'a Fs, slots: &mut Slots<'a>, cx: &mut RunCtx) {
    cx.ex.completed = true;
    {
        let mut st = cx.st.borrow_mut();
        cx.ex.log = st.log.clone();
        st.logging = cx.plan.log_all;
        cx.ex.oob_write = st.oob_write;
        cx.ex.max_addr = st.max_addr;
        cx.ex.status_post = {
            let boot = st.read_vec(0, 512);
            decoder::parse_raw(&boot).map(|g| g.status).unwrap_or(0xFF)
        };
    }
    cx.ex.ticks_post = cx.ctr.get();
    let live = live_handles(slots);
    cx.ex.post = Some(decode_now(cx, &live));
    if let Some(Ok(d)) = &cx.ex.post {
        let d = d.clone();
        observe_aliases(&mut cx.ex.model, &d);
    }
    cx.ex.live_post = live;
    for (i, f) in slots.files.iter().enumerate() {
        cx.ex.cursors[i] = f.as_ref().map(|f| {
            let s = f.verif_state();
            (s.offset, s.current_cluster)
        });
    }
    cx.ex.fs_state_post = Some(fs.verif_state());
    cx.ex.key = state_key(cx, fs, slots);
    cx.ex.boundary_overlay = cx.st.borrow().clone_overlay();
    if !cx.plan.suffix || cx.plan.suffix_minimal {
        return;
    }
    let writes0 = cx.st.borrow().n_writes;
    let mut sx = Suffix::default();
    // extents before flushing
    for (si, f) in slots.files.iter_mut().enumerate() {
        if let Some(f) = f {
            let nid = cx.ex.model.fh[si].as_ref().map_or(0, |h| h.nid);
            let mut v = Vec::new();
            let mut err = None;
            for r in f.extents() {
                match r {
                    Ok(e) => v.push((e.offset, e.size)),
                    Err(e) => {
                        err = Some(ek(e));
                        break;
                    }
                }
                if v.len() > 100_000 {
                    break;
                }
            }
            let mut bytes = Vec::new();
            {
                let st = cx.st.borrow();
                for (o, s) in &v {
                    bytes.extend_from_slice(&st.read_vec(*o, *s as usize));
                }
            }
            sx.extents.push((si, nid, err.map_or(Ok(v), Err), bytes));
        }
    }
    sx.stats_free = Some(fs.stats().map(|s| s.free_clusters()).map_err(ek));
    for (si, f) in slots.files.iter_mut().enumerate() {
        if let Some(f) = f {
            sx.flush_results.push((si, f.flush().map_err(ek)));
        }
    }
    sx.flushed = Some(decode_now(cx, &[]));
    sx.lib_tree = Some(lib_tree(fs));
    sx.status_mounted = cx.st.borrow().read_vec(0, 512)[if fs.fat_type() == fatfs::FatType::Fat32 { 0x41 } else { 0x25 }];
    sx.writes_in_suffix = cx.st.borrow().n_writes - writes0;
    if let Some(Ok(t)) = &sx.lib_tree {
        sx.dotdot_session = Some(dotdot_views(fs, t));
    }
    cx.ex.suffix = sx;
}

pub fn raw_status(st: &DevState) -> u8 {
    let boot = st.read_vec(0, 512);
    decoder::parse_raw(&boot).map(|g| g.status).unwrap_or(0xFF)
}

/// mount a copy of an image (given as overlay on the configuration's base) and read the status flags,
/// forgetting the session afterwards (nothing is written back)
fn flags_of_abandoned(cfg: &Cfg, ov: &BTreeMap<u64, Box<[u8; 512]>>) -> Result<(bool, bool), ErrKind> {
    let (st2, dev2) = new_dev(&cfg.base);
    st2.borrow_mut().overlay = ov.clone();
    let ctr2 = Rc::new(Cell::new(0));
    let r = guarded(|| match mount(dev2, cfg, &ctr2) {
        Ok(fs2) => {
            let r = fs2.read_status_flags().map(|f| (f.dirty(), f.io_error())).map_err(ek);
            drop(fs2); // (a throw-away copy of the image: destructor writes are harmless, forgetting would leak it)
            r
        }
        Err(e) => Err(ek(e)),
    });
    r.unwrap_or(Err(ErrKind::Other))
}

pub fn run(cfg: &Cfg, ops: &[Op], plan: &Plan) -> Exec {
    install_panic_hook();
    let (st, _dev0) = new_dev(&cfg.base);
    st.borrow_mut().short = cfg.short;
    if plan.log_all {
        let mut s = st.borrow_mut();
        s.logging = true;
        s.log_data = plan.log_data;
    }
    let ctr = Rc::new(Cell::new(cfg.clock0));
    let model = cfg.model0.as_ref().map(|m| (**m).clone()).unwrap_or_else(|| Model::new(cfg.unicode));
    let ex = Exec {
        outs: Vec::new(),
        expects: Vec::new(),
        panic: None,
        mount_failures: Vec::new(),
        model_pre: model.clone(),
        model,
        pre: None,
        pre_overlay: BTreeMap::new(),
        post: None,
        live_post: Vec::new(),
        live_pre: Vec::new(),
        log: Vec::new(),
        last_op_log_start: 0,
        fired: None,
        fired_early: None,
        budget_hit: false,
        calls_last: 0,
        rw_calls_last: 0,
        oob_write: false,
        max_addr: 0,
        key: 0,
        suffix: Suffix::default(),
        st: st.clone(),
        ticks_pre: 0,
        ticks_post: 0,
        status_at_mount: 0,
        status_byte_at_mount: 0,
        status_post: 0,
        boundary_overlay: BTreeMap::new(),
        abandoned_boundary_flags: None,
        log_full: Vec::new(),
        fs_state_post: None,
        completed: false,
        tick_ranges: Vec::new(),
        handle_nids: Vec::new(),
        cursors: [None; crate::model::NFH],
        epoch_end_status: None,
    };
    let mut cx = RunCtx { cfg, ops, plan, st: st.clone(), ctr: ctr.clone(), ex };
    let mut i = 0usize;
    let n = ops.len();
    // initial mount is not part of the history (fault-free)
    let mut fs = match guarded(|| mount(MemDev::new(st.clone()), cfg, &ctr)) {
        Ok(Ok(fs)) => fs,
        Ok(Err(e)) => {
            cx.ex.mount_failures.push((0, ek(e)));
            return cx.ex;
        }
        Err(msg) => {
            cx.ex.panic = Some((0, format!("panic in initial mount: {msg}")));
            return cx.ex;
        }
    };
    cx.ex.status_at_mount = fs.verif_state().mount_status_flags;
    cx.ex.status_byte_at_mount = raw_status(&st.borrow());
    loop {
        let end = run_epoch(&fs, &mut cx, &mut i);
        match end {
            EpochEnd::Panicked => {
                std::mem::forget(fs);
                return cx.ex;
            }
            EpochEnd::Done => {
                final_suffix(fs, &mut cx);
                return cx.ex;
            }
            EpochEnd::Remount(idx) | EpochEnd::DropRemount(idx) | EpochEnd::Abandon(idx) => {
                let is_last = idx + 1 == n;
                if is_last {
                    prepare_last(&mut cx, None);
                }
                st.borrow_mut().op_idx = idx as u32;
                let kind = cx.ops[idx].clone();
                let r = guarded(|| -> Res {
                    match kind {
                        Op::Remount => fs.unmount().map_err(ek)?,
                        Op::DropRemount => drop(fs),
                        Op::Abandon => std::mem::forget(fs),
                        _ => unreachable!(),
                    }
                    Ok(Out::Unit)
                });
                let (res, newfs) = match r {
                    Err(msg) => {
                        cx.ex.panic = Some((idx, format!("panic in unmount: {msg}")));
                        cx.ex.outs.push(Err(ErrKind::Other));
                        cx.ex.expects.push(Expect::default());
                        if is_last {
                            after_last_counters(&mut cx);
                        }
                        return cx.ex;
                    }
                    Ok(unm) => {
                        if is_last && !matches!(cx.ops[idx], Op::Abandon) {
                            cx.ex.epoch_end_status = Some((cx.ex.status_byte_at_mount, raw_status(&st.borrow())));
                        }
                        // mount again (part of the same operation for fault purposes)
                        match guarded(|| mount(MemDev::new(st.clone()), cfg, &ctr)) {
                            Err(msg) => {
                                cx.ex.panic = Some((idx, format!("panic in mount: {msg}")));
                                cx.ex.outs.push(Err(ErrKind::Other));
                                cx.ex.expects.push(Expect::default());
                                if is_last {
                                    after_last_counters(&mut cx);
                                }
                                return cx.ex;
                            }
                            Ok(Err(e)) => {
                                let k = ek(e);
                                (if unm.is_err() { unm } else { Err(k) }, None)
                            }
                            Ok(Ok(nfs)) => (unm, Some(nfs)),
                        }
                    }
                };
                if is_last {
                    after_last_counters(&mut cx);
                }
                let t_now = cx.ctr.get();
                let expect = model_step(&mut cx.ex.model, &cx.ops[idx], &res, (t_now, t_now), cfg.atime);
                cx.ex.tick_ranges.push((t_now, t_now));
                cx.ex.handle_nids.push(handle_nids(&cx.ex.model));
                let failed_mount = newfs.is_none();
                if failed_mount {
                    if let Err(k) = &res {
                        cx.ex.mount_failures.push((idx, *k));
                    }
                }
                cx.ex.outs.push(res);
                cx.ex.expects.push(expect);
                i = idx + 1;
                match newfs {
                    Some(nfs) => {
                        cx.ex.status_at_mount = nfs.verif_state().mount_status_flags;
                        cx.ex.status_byte_at_mount = raw_status(&st.borrow());
                        fs = nfs;
                    }
                    None => {
                        // cannot continue; try a fault-free mount so that the suffix can run
                        st.borrow_mut().disarm();
                        match guarded(|| mount(MemDev::new(st.clone()), cfg, &ctr)) {
                            Ok(Ok(nfs)) => {
                                cx.ex.status_at_mount = nfs.verif_state().mount_status_flags;
                                cx.ex.status_byte_at_mount = raw_status(&st.borrow());
                                fs = nfs;
                            }
                            _ => return cx.ex,
                        }
                    }
                }
            }
        }
    }
}

fn final_suffix(fs: Fs, cx: &mut RunCtx) {
    if !cx.plan.suffix || !cx.ex.completed {
        // still run destructors
        let _ = guarded(move || drop(fs));
        return;
    }
    let cfg = cx.cfg;
    let st = cx.st.clone();
    cx.ex.abandoned_boundary_flags = Some(flags_of_abandoned(cfg, &cx.ex.boundary_overlay));
    if cx.plan.suffix_minimal {
        let r = guarded(move || fs.unmount().map_err(ek));
        match r {
            Ok(r) => cx.ex.suffix.unmount = Some(r),
            Err(msg) => cx.ex.panic = Some((cx.ops.len(), format!("panic in final unmount: {msg}"))),
        }
        cx.ex.suffix.status_unmounted = raw_status(&st.borrow());
        cx.ex.log_full = st.borrow().log.clone();
        return;
    }
    // abandon copy: handles are flushed and dropped, volume not unmounted
    {
        let ov = st.borrow().clone_overlay();
        let (st2, dev2) = new_dev(&cfg.base);
        st2.borrow_mut().overlay = ov;
        cx.ex.suffix.abandoned = Some(decode_dev(&st2.borrow(), cfg, &[]));
        let ctr2 = Rc::new(Cell::new(0));
        let r = guarded(|| match mount(dev2, cfg, &ctr2) {
            Ok(fs2) => {
                let r = fs2.read_status_flags().map(|f| (f.dirty(), f.io_error())).map_err(ek);
                drop(fs2); // (a throw-away copy of the image: destructor writes are harmless, forgetting would leak it)
                r
            }
            Err(e) => Err(ek(e)),
        });
        cx.ex.suffix.abandoned_flags = Some(r.unwrap_or(Err(ErrKind::Other)));
    }
    let r = guarded(move || fs.unmount().map_err(ek));
    match r {
        Ok(r) => cx.ex.suffix.unmount = Some(r),
        Err(msg) => {
            cx.ex.panic = Some((cx.ops.len(), format!("panic in final unmount: {msg}")));
            return;
        }
    }
    {
        let s = st.borrow();
        let boot = s.read_vec(0, 512);
        if let Ok(g) = decoder::parse_raw(&boot) {
            cx.ex.suffix.status_unmounted = g.status;
            cx.ex.suffix.fsinfo = decoder::fsinfo(&s, &g);
        }
    }
    cx.ex.suffix.final_decoded = Some(decode_now(cx, &[]));
    cx.ex.log_full = st.borrow().log.clone();
    let ctr = cx.ctr.clone();
    let r = guarded(|| match mount(MemDev::new(st.clone()), cfg, &ctr) {
        Ok(fs2) => {
            let t = lib_tree(&fs2);
            let dd = t.as_ref().ok().map(|t| dotdot_views(&fs2, t));
            // a read-only session: forget to avoid any write-back influencing nothing else
            drop(fs2);
            t.map(|t| (t, dd))
        }
        Err(e) => Err(format!("remount failed: {:?}", ek(e))),
    });
    match r.unwrap_or_else(|m| Err(format!("panic in remount listing: {m}"))) {
        Ok((t, dd)) => {
            cx.ex.suffix.remount_tree = Some(Ok(t));
            cx.ex.suffix.dotdot_remount = dd;
        }
        Err(e) => cx.ex.suffix.remount_tree = Some(Err(e)),
    }
}

/// Free-slot room computation on an independently decoded directory (for NotEnoughSpace admissibility).
/// Returns (fits_in_existing_area, slots_missing_beyond_area).
pub fn dir_room(d: &decoder::DDir, needed: usize) -> (bool, usize) {
    let n = d.slots.len();
    let end = d.end_idx.unwrap_or(n);
    // run of deleted slots of sufficient length before the end marker
    let mut run = 0usize;
    for i in 0..end {
        if d.slots[i][0] == 0xE5 {
            run += 1;
            if run >= needed {
                return (true, 0);
            }
        } else {
            run = 0;
        }
    }
    // tail: trailing deleted run + everything from the end marker to the end of the area
    let tail = run + (n - end);
    if tail >= needed {
        (true, 0)
    } else {
        (false, needed - tail)
    }
}
