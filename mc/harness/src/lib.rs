pub mod decoder;
pub mod dev;
pub mod explore;
pub mod model;
pub mod oracles;
pub mod report;
pub mod sess;
pub mod vol;
