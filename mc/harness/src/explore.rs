//! Explicit-state explorer: level-synchronous BFS over operation histories, every node re-executed
//! from scratch on the real library (replay-from-history), de-duplicated on a canonical state key.

use std::collections::{BTreeMap, HashSet};
use std::time::Instant;

use rayon::prelude::*;

use crate::sess::{self, Cfg, Exec, Op, Plan};

#[derive(Debug, Clone)]
pub struct Violation {
    pub prop: String,
    pub sig: String,
    pub msg: String,
    pub cfg: String,
    pub hist: Vec<Op>,
    pub extra: String,
    pub count: u64,
}

pub trait Checker: Sync {
    fn plan(&self) -> Plan {
        Plan::default()
    }
    /// (signature, message) for everything wrong with the last step of this execution
    fn check(&self, cfg: &Cfg, ops: &[Op], ex: &Exec) -> Vec<(String, String)>;
    /// extra bits mixed into the state key (model-only state the property needs)
    fn key_extra(&self, _ex: &Exec) -> u64 {
        0
    }
    /// statistics hook: tag describing the outcome of the last op (for the vacuity histogram)
    fn tag(&self, ops: &[Op], ex: &Exec) -> String {
        default_tag(ops, ex)
    }
}

pub fn op_kind(op: &Op) -> &'static str {
    match op {
        Op::CreateFile { .. } => "create_file",
        Op::OpenFile { .. } => "open_file",
        Op::CreateDir { .. } => "create_dir",
        Op::OpenDir { .. } => "open_dir",
        Op::List { .. } => "list",
        Op::ListOne { .. } => "list_one",
        Op::Remove { .. } => "remove",
        Op::Rename { .. } => "rename",
        Op::Write { .. } => "write",
        Op::WriteAll { .. } => "write_all",
        Op::Fill { .. } => "fill",
        Op::Read { .. } => "read",
        Op::ReadExact { .. } => "read_exact",
        Op::Seek { .. } => "seek",
        Op::Truncate { .. } => "truncate",
        Op::Flush { .. } => "flush",
        Op::DropFile { .. } => "drop_file",
        Op::DropDir { .. } => "drop_dir",
        Op::Extents { .. } => "extents",
        Op::CloneFile { .. } => "clone_file",
        Op::SetTime { .. } => "set_time",
        Op::Stats => "stats",
        Op::StatusFlags => "status_flags",
        Op::Label => "label",
        Op::Meta => "meta",
        Op::Remount => "remount",
        Op::DropRemount => "drop_remount",
        Op::Abandon => "abandon",
    }
}

pub fn default_tag(ops: &[Op], ex: &Exec) -> String {
    match (ops.last(), ex.outs.last()) {
        (Some(op), Some(Ok(sess::Out::Progress { err: Some(e), .. }))) => format!("{}:partial:{}", op_kind(op), e.name()),
        (Some(op), Some(Ok(_))) => format!("{}:ok", op_kind(op)),
        (Some(op), Some(Err(e))) => {
            let e = if e.is_io() { "Io".to_string() } else { e.name() };
            format!("{}:{}", op_kind(op), e)
        }
        _ => "init".into(),
    }
}

#[derive(Debug, Clone, Default)]
pub struct Stats {
    pub states: u64,
    pub transitions: u64,
    pub max_depth_completed: usize,
    pub per_depth: Vec<(usize, u64, u64)>,
    pub outcomes: BTreeMap<String, u64>,
    pub capped: Option<String>,
    pub determinism_rechecks: u64,
    pub two_handle_states: u64,
    pub full_states: u64,
    pub wall_s: f64,
    /// a few histories that were actually executed (deepest level first), with the outcome of their last call
    pub samples: Vec<(Vec<String>, String)>,
    /// alphabet entries that were never enabled in any explored state (vacuity guard)
    pub never_executed: Vec<String>,
}

impl Stats {
    pub fn merge(&mut self, o: &Stats) {
        self.states += o.states;
        self.transitions += o.transitions;
        self.max_depth_completed = self.max_depth_completed.max(o.max_depth_completed);
        for (k, v) in &o.outcomes {
            *self.outcomes.entry(k.clone()).or_default() += v;
        }
        if self.capped.is_none() {
            self.capped = o.capped.clone();
        }
        self.determinism_rechecks += o.determinism_rechecks;
        self.two_handle_states += o.two_handle_states;
        self.full_states += o.full_states;
        self.wall_s += o.wall_s;
        if self.samples.len() < 6 {
            self.samples.extend(o.samples.iter().take(2).cloned());
        }
        self.never_executed.extend(o.never_executed.iter().cloned());
    }
}

pub struct Limits {
    pub deadline: Option<Instant>,
    pub max_frontier: usize,
    pub recheck_every: u64,
}

impl Default for Limits {
    fn default() -> Self {
        Limits { deadline: None, max_frontier: 3_000_000, recheck_every: 97 }
    }
}

#[derive(Clone)]
struct Node {
    hist: Vec<u16>,
    enabled: u128,
}

struct ChildOut {
    key: u128,
    node: Node,
    viols: Vec<(String, String)>,
    tag: String,
    two_handles: bool,
    full: bool,
    nondet: Option<String>,
}

fn enabled_mask(alphabet: &[Op], ex: &Exec) -> u128 {
    let mut m = 0u128;
    for (i, op) in alphabet.iter().enumerate() {
        if sess::enabled(&ex.model, op) {
            m |= 1 << i;
        }
    }
    m
}

fn hist_ops(prefix: &[Op], alphabet: &[Op], hist: &[u16]) -> Vec<Op> {
    prefix.iter().cloned().chain(hist.iter().map(|i| alphabet[*i as usize].clone())).collect()
}

/// observations compared by the determinism self-check
fn fingerprint(ex: &Exec) -> String {
    format!("{:x}|{:?}|{:?}", ex.key, ex.outs, ex.panic)
}

pub fn explore(
    prop: &str,
    cfg: &Cfg,
    prefix: &[Op],
    alphabet: &[Op],
    depth: usize,
    checker: &dyn Checker,
    limits: &Limits,
) -> (Stats, Vec<Violation>) {
    assert!(alphabet.len() <= 128, "alphabet too large");
    let t0 = Instant::now();
    let plan = checker.plan();
    let mut stats = Stats::default();
    let mut viols: BTreeMap<String, Violation> = BTreeMap::new();
    let mut seen: HashSet<u128> = HashSet::new();
    // initial state
    let ex0 = sess::run(cfg, prefix, &plan);
    if let Some((_, msg)) = &ex0.panic {
        viols.insert(
            "init/panic".into(),
            Violation { prop: prop.into(), sig: "init/panic".into(), msg: msg.clone(), cfg: cfg.name.clone(), hist: vec![], extra: String::new(), count: 1 },
        );
        return (stats, viols.into_values().collect());
    }
    if !ex0.mount_failures.is_empty() {
        viols.insert(
            "init/mount".into(),
            Violation {
                prop: prop.into(),
                sig: "init/mount-failed".into(),
                msg: format!("{:?}", ex0.mount_failures),
                cfg: cfg.name.clone(),
                hist: vec![],
                extra: String::new(),
                count: 1,
            },
        );
        return (stats, viols.into_values().collect());
    }
    for (sig, msg) in checker.check(cfg, prefix, &ex0) {
        viols.entry(sig.clone()).or_insert(Violation {
            prop: prop.into(),
            sig,
            msg,
            cfg: cfg.name.clone(),
            hist: vec![],
            extra: String::new(),
            count: 1,
        });
    }
    seen.insert(ex0.key ^ checker.key_extra(&ex0) as u128);
    stats.states = 1;
    let mut frontier = vec![Node { hist: vec![], enabled: enabled_mask(alphabet, &ex0) }];
    drop(ex0);
    let mut executed: u128 = 0;
    for d in 1..=depth {
        if frontier.is_empty() {
            stats.max_depth_completed = depth;
            break;
        }
        for n in &frontier {
            executed |= n.enabled;
        }
        let tasks: Vec<(usize, u16)> = frontier
            .iter()
            .enumerate()
            .flat_map(|(ni, n)| (0..alphabet.len() as u16).filter(move |i| n.enabled & (1 << i) != 0).map(move |i| (ni, i)))
            .collect();
        let deadline = limits.deadline;
        let recheck = limits.recheck_every;
        let outs: Vec<Option<ChildOut>> = tasks
            .par_iter()
            .enumerate()
            .map(|(ti, (ni, oi))| {
                if let Some(dl) = deadline {
                    if Instant::now() > dl {
                        return None;
                    }
                }
                let mut hist = frontier[*ni].hist.clone();
                hist.push(*oi);
                let ops = hist_ops(prefix, alphabet, &hist);
                let ex = sess::run(cfg, &ops, &plan);
                let mut v = checker.check(cfg, &ops, &ex);
                let mut nondet = None;
                if recheck > 0 && (ti as u64) % recheck == 0 {
                    let ex2 = sess::run(cfg, &ops, &plan);
                    if fingerprint(&ex) != fingerprint(&ex2) {
                        nondet = Some(format!("{:?}", ops));
                    }
                }
                if let Some((i, msg)) = &ex.panic {
                    let kind = ops.get(*i).map_or("suffix", op_kind);
                    v.push((format!("panic/{kind}"), format!("panic at op {i}: {msg}")));
                }
                let tag = checker.tag(&ops, &ex);
                let two = ex.model.fh.iter().flatten().count() + ex.model.dh.iter().flatten().count() >= 2;
                let full = matches!(&ex.post, Some(Ok(p)) if p.free == 0);
                let enabled = enabled_mask(alphabet, &ex);
                let key = ex.key ^ checker.key_extra(&ex) as u128;
                Some(ChildOut { key, node: Node { hist, enabled }, viols: v, tag, two_handles: two, full, nondet })
            })
            .collect();
        let total = outs.len();
        let done = outs.iter().filter(|o| o.is_some()).count();
        let mut next = Vec::new();
        let mut new_states = 0u64;
        let mut level_sample: Option<(Vec<String>, String)> = None;
        for o in outs.into_iter().flatten() {
            if level_sample.is_none() && stats.transitions % 7 == 3 {
                level_sample = Some((hist_ops(prefix, alphabet, &o.node.hist).iter().map(|x| format!("{x:?}")).collect(), o.tag.clone()));
            }
            stats.transitions += 1;
            *stats.outcomes.entry(o.tag).or_default() += 1;
            if recheck > 0 {
                // counted below
            }
            if let Some(nd) = o.nondet {
                eprintln!("MACHINERY ERROR: nondeterministic re-execution of {nd}");
                std::process::exit(2);
            }
            if !o.viols.is_empty() {
                for (sig, msg) in o.viols {
                    let e = viols.entry(sig.clone()).or_insert_with(|| Violation {
                        prop: prop.into(),
                        sig,
                        msg,
                        cfg: cfg.name.clone(),
                        hist: hist_ops(prefix, alphabet, &o.node.hist),
                        extra: String::new(),
                        count: 0,
                    });
                    e.count += 1;
                }
                continue; // not expanded
            }
            if seen.insert(o.key) {
                new_states += 1;
                if o.two_handles {
                    stats.two_handle_states += 1;
                }
                if o.full {
                    stats.full_states += 1;
                }
                next.push(o.node);
            }
        }
        if let Some(ls) = level_sample {
            stats.samples.insert(0, ls);
            stats.samples.truncate(3);
        }
        stats.determinism_rechecks += if recheck > 0 { (done as u64 + recheck - 1) / recheck } else { 0 };
        stats.states += new_states;
        stats.per_depth.push((d, done as u64, new_states));
        if done < total {
            stats.capped = Some(format!("deadline hit at depth {d}: {done}/{total} transitions of this level executed"));
            stats.max_depth_completed = d - 1;
            break;
        }
        stats.max_depth_completed = d;
        if next.len() > limits.max_frontier {
            stats.capped = Some(format!("frontier cap {} hit after depth {d}", limits.max_frontier));
            break;
        }
        frontier = next;
    }
    stats.wall_s = t0.elapsed().as_secs_f64();
    if viols.is_empty() {
        stats.never_executed = alphabet.iter().enumerate().filter(|(i, _)| executed & (1 << i) == 0).map(|(_, o)| format!("{}: {o:?}", cfg.name)).collect();
    }
    (stats, viols.into_values().collect())
}
