//! Independent image builder (mkfs + populate) written from the FAT specification.
//! Produces volumes the library's own writer never produces, together with the ground truth.

use crate::decoder::{self, sfn_checksum, Geo};

#[derive(Debug, Clone)]
pub struct MkSpec {
    pub width: u8,
    pub bps: u32,
    pub spc: u32,
    pub nfats: u32,
    pub reserved: u32,
    pub root_entries: u32,
    pub clusters: u64,
    /// FAT32 extended flags (bit 7: mirroring disabled, low nibble: active FAT)
    pub ext_flags: u16,
    /// end-of-chain value to use (any value in the legal range of the width)
    pub eoc: u32,
    /// FAT32: value of the reserved top nibble written into every entry (0..=0xF); 0x10 = a different non-zero
    /// value per entry ((7 * c + 3) % 15 + 1: all four bits occur, neighbours differ)
    pub nibble: u32,
    pub media: u8,
    pub status: u8,
    /// extra bytes after the declared end of the volume, filled with 0xCD
    pub tail: u64,
    /// sectors after the last whole cluster but inside the declared size
    pub slack_sectors: u32,
    /// value for FAT entries past the last cluster
    pub padding_val: u32,
    pub fsinfo_sector: u32,
    pub backup_sector: u32,
    pub root_cluster: u32,
    pub volume_id: u32,
    /// BPB hidden-sectors field (sectors in front of the volume on the medium; no meaning inside the volume)
    pub hidden: u32,
}

impl MkSpec {
    pub fn new(width: u8) -> Self {
        MkSpec {
            width,
            bps: 512,
            spc: 1,
            nfats: 2,
            reserved: if width == 32 { 32 } else { 1 },
            root_entries: if width == 32 { 0 } else { 16 },
            clusters: match width {
                12 => 40,
                16 => 4085,
                _ => 65525,
            },
            ext_flags: 0,
            eoc: match width {
                12 => 0xFFF,
                16 => 0xFFFF,
                _ => 0x0FFF_FFFF,
            },
            nibble: 0,
            media: 0xF8,
            status: 0,
            tail: 0,
            slack_sectors: 0,
            padding_val: 0,
            fsinfo_sector: 1,
            backup_sector: 6,
            root_cluster: 2,
            volume_id: 0xB01D_FACE,
            hidden: 0,
        }
    }
    pub fn eoc_low(&self) -> u32 {
        match self.width {
            12 => 0xFF8,
            16 => 0xFFF8,
            _ => 0x0FFF_FFF8,
        }
    }
    pub fn bad(&self) -> u32 {
        match self.width {
            12 => 0xFF7,
            16 => 0xFFF7,
            _ => 0x0FFF_FFF7,
        }
    }
}

pub struct Builder {
    pub spec: MkSpec,
    pub img: Vec<u8>,
    pub geo: Geo,
    pub spf: u64,
}

fn put16(b: &mut [u8], o: usize, v: u16) {
    b[o..o + 2].copy_from_slice(&v.to_le_bytes());
}
fn put32(b: &mut [u8], o: usize, v: u32) {
    b[o..o + 4].copy_from_slice(&v.to_le_bytes());
}

impl Builder {
    pub fn new(spec: MkSpec) -> Builder {
        let s = &spec;
        let entries = s.clusters + 2;
        let fat_bytes = match s.width {
            12 => (entries * 3 + 1) / 2,
            16 => entries * 2,
            _ => entries * 4,
        };
        let spf = (fat_bytes + s.bps as u64 - 1) / s.bps as u64;
        let root_secs = (s.root_entries as u64 * 32 + s.bps as u64 - 1) / s.bps as u64;
        let data_start = s.reserved as u64 + s.nfats as u64 * spf + root_secs;
        let total = data_start + s.clusters * s.spc as u64 + s.slack_sectors as u64;
        assert!(total <= u32::MAX as u64, "volume too large for the builder's flat image");
        let len = total * s.bps as u64 + s.tail;
        let mut img = vec![0u8; len as usize];
        // boot sector
        {
            let b = &mut img[..512];
            b[0] = 0xEB;
            b[1] = 0x3C;
            b[2] = 0x90;
            b[3..11].copy_from_slice(b"VERIFMK ");
            put16(b, 11, s.bps as u16);
            b[13] = s.spc as u8;
            put16(b, 14, s.reserved as u16);
            b[16] = s.nfats as u8;
            put16(b, 17, s.root_entries as u16);
            if total < 0x10000 && s.width != 32 {
                put16(b, 19, total as u16);
            } else {
                put32(b, 32, total as u32);
            }
            b[21] = s.media;
            put16(b, 24, 63);
            put16(b, 26, 255);
            put32(b, 28, s.hidden);
            if s.width == 32 {
                put32(b, 36, spf as u32);
                put16(b, 40, s.ext_flags);
                put16(b, 42, 0);
                put32(b, 44, s.root_cluster);
                put16(b, 48, s.fsinfo_sector as u16);
                put16(b, 50, s.backup_sector as u16);
                b[64] = 0x80;
                b[65] = s.status;
                b[66] = 0x29;
                put32(b, 67, s.volume_id);
                b[71..82].copy_from_slice(b"NO NAME    ");
                b[82..90].copy_from_slice(b"FAT32   ");
            } else {
                put16(b, 22, spf as u16);
                b[36] = 0x80;
                b[37] = s.status;
                b[38] = 0x29;
                put32(b, 39, s.volume_id);
                b[43..54].copy_from_slice(b"NO NAME    ");
                b[54..62].copy_from_slice(if s.width == 12 { b"FAT12   " } else { b"FAT16   " });
            }
            b[510] = 0x55;
            b[511] = 0xAA;
        }
        let geo = decoder::parse_raw(&img[..512]).expect("builder boot sector");
        assert_eq!(geo.clusters, spec.clusters, "builder geometry");
        assert_eq!(geo.width, spec.width, "builder width");
        let mut b = Builder { spec, img, geo, spf };
        // reserved-area filler (recognisable) in sectors that are not boot / fsinfo / backup
        for sec in 1..b.spec.reserved {
            let o = (sec * b.spec.bps) as usize;
            for (i, x) in b.img[o..o + b.spec.bps as usize].iter_mut().enumerate() {
                *x = 0xB0 ^ (i as u8);
            }
        }
        if b.spec.width == 32 {
            // backup boot sector = copy of sector 0
            let bs = b.spec.bps as usize;
            if b.spec.backup_sector != 0 {
                let boot = b.img[..512].to_vec();
                let o = b.spec.backup_sector as usize * bs;
                b.img[o..o + bs].fill(0);
                b.img[o..o + 512].copy_from_slice(&boot);
            }
            let o = b.spec.fsinfo_sector as usize * bs;
            b.img[o..o + bs].fill(0);
            put32(&mut b.img, o, 0x4161_5252);
            put32(&mut b.img, o + 484, 0x6141_7272);
            put32(&mut b.img, o + 488, 0xFFFF_FFFF);
            put32(&mut b.img, o + 492, 0xFFFF_FFFF);
            put32(&mut b.img, o + 508, 0xAA55_0000);
        }
        // FAT entries 0 and 1, every data entry with the reserved nibble, padding entries
        let ones = match b.spec.width {
            12 => 0xF00,
            16 => 0xFF00,
            _ => 0x0FFF_FF00,
        };
        let media = b.spec.media as u32;
        let eoc = b.spec.eoc;
        let nib = b.spec.nibble;
        for copy in 0..b.spec.nfats {
            b.set_fat_copy(copy, 0, ones | media);
            b.set_fat_copy(copy, 1, eoc);
            if b.spec.width == 32 && nib != 0 {
                for c in 2..=b.geo.max_cluster() {
                    let n = if nib == 0x10 { (7 * c + 3) % 15 + 1 } else { nib };
                    b.set_fat_copy_raw32(copy, c, n << 28);
                }
            }
            let total_entries = b.geo.fat_entries_total();
            if b.spec.padding_val != 0 {
                for c in (b.geo.clusters + 2)..total_entries {
                    b.set_fat_copy(copy, c as u32, b.spec.padding_val);
                }
            }
        }
        if b.spec.width == 32 {
            let rc = b.spec.root_cluster;
            b.set_fat(rc, eoc);
        }
        if b.spec.tail > 0 {
            let end = b.geo.volume_end() as usize;
            b.img[end..].fill(0xCD);
        }
        b
    }

    fn set_fat_copy_raw32(&mut self, copy: u32, c: u32, raw: u32) {
        let (off, _) = self.geo.fat_entry_off(copy, c);
        put32(&mut self.img, off as usize, raw);
    }

    pub fn set_fat_copy(&mut self, copy: u32, c: u32, val: u32) {
        let (off, _) = self.geo.fat_entry_off(copy, c);
        let off = off as usize;
        match self.geo.width {
            12 => {
                let w = u16::from_le_bytes([self.img[off], self.img[off + 1]]);
                let nw = if c & 1 == 0 { (w & 0xF000) | (val as u16 & 0x0FFF) } else { (w & 0x000F) | ((val as u16) << 4) };
                put16(&mut self.img, off, nw);
            }
            16 => put16(&mut self.img, off, val as u16),
            _ => {
                let old = u32::from_le_bytes([self.img[off], self.img[off + 1], self.img[off + 2], self.img[off + 3]]);
                put32(&mut self.img, off, (old & 0xF000_0000) | (val & 0x0FFF_FFFF));
            }
        }
    }

    /// set an entry in every copy that is kept up to date (all when mirrored, the active one otherwise)
    pub fn set_fat(&mut self, c: u32, val: u32) {
        if self.geo.mirrored() {
            for copy in 0..self.spec.nfats {
                self.set_fat_copy(copy, c, val);
            }
        } else {
            let a = self.geo.active_fat();
            self.set_fat_copy(a, c, val);
        }
    }

    /// fill the inactive FAT copies (mirroring off) with a recognisable pattern
    pub fn scribble_inactive(&mut self) {
        if self.geo.mirrored() {
            return;
        }
        let a = self.geo.active_fat();
        for copy in 0..self.spec.nfats {
            if copy == a {
                continue;
            }
            let off = self.geo.fat_off(copy) as usize;
            let n = self.geo.fat_bytes() as usize;
            for (i, x) in self.img[off..off + n].iter_mut().enumerate() {
                *x = 0x5A ^ (i as u8).wrapping_mul(7) ^ (copy as u8);
            }
        }
    }

    pub fn link_chain(&mut self, clusters: &[u32]) {
        for w in clusters.windows(2) {
            self.set_fat(w[0], w[1]);
        }
        if let Some(l) = clusters.last() {
            let eoc = self.spec.eoc;
            self.set_fat(*l, eoc);
        }
    }

    pub fn write_cluster(&mut self, c: u32, data: &[u8]) {
        let off = self.geo.cluster_off(c) as usize;
        let cs = self.geo.cluster_size() as usize;
        self.img[off..off + cs].fill(0);
        self.img[off..off + data.len().min(cs)].copy_from_slice(&data[..data.len().min(cs)]);
    }

    /// write file content along a chain
    pub fn write_file(&mut self, chain: &[u32], data: &[u8]) {
        let cs = self.geo.cluster_size() as usize;
        for (i, c) in chain.iter().enumerate() {
            let s = i * cs;
            let e = ((i + 1) * cs).min(data.len());
            if s < data.len() {
                self.write_cluster(*c, &data[s..e]);
            } else {
                self.write_cluster(*c, &[]);
            }
        }
        self.link_chain(chain);
    }

    /// write directory slots into the fixed root area (chain empty) or along a chain
    pub fn write_dir(&mut self, chain: &[u32], slots: &[[u8; 32]]) {
        if chain.is_empty() {
            let off = self.geo.root_off() as usize;
            assert!(slots.len() as u64 * 32 <= self.geo.root_bytes(), "root overflow");
            for (i, s) in slots.iter().enumerate() {
                self.img[off + i * 32..off + i * 32 + 32].copy_from_slice(s);
            }
        } else {
            let cs = self.geo.cluster_size() as usize;
            let per = cs / 32;
            assert!(slots.len() <= per * chain.len(), "directory overflow");
            for c in chain {
                self.write_cluster(*c, &[]);
            }
            for (i, s) in slots.iter().enumerate() {
                let c = chain[i / per];
                let off = self.geo.cluster_off(c) as usize + (i % per) * 32;
                self.img[off..off + 32].copy_from_slice(s);
            }
            self.link_chain(chain);
        }
    }

    /// mark every still-free cluster except `keep` as bad
    pub fn ballast(&mut self, keep: &[u32]) {
        let bad = self.spec.bad();
        let copy = self.geo.active_fat();
        for c in 2..=self.geo.max_cluster() {
            let (off, _) = self.geo.fat_entry_off(copy, c);
            let off = off as usize;
            let v = match self.geo.width {
                12 => {
                    let w = u16::from_le_bytes([self.img[off], self.img[off + 1]]);
                    (if c & 1 == 0 { w & 0x0FFF } else { w >> 4 }) as u32
                }
                16 => u16::from_le_bytes([self.img[off], self.img[off + 1]]) as u32,
                _ => u32::from_le_bytes([self.img[off], self.img[off + 1], self.img[off + 2], self.img[off + 3]]) & 0x0FFF_FFFF,
            };
            if v == 0 && !keep.contains(&c) {
                self.set_fat(c, bad);
            }
        }
    }

    pub fn set_fsinfo(&mut self, free: u32, next: u32) {
        if self.spec.width != 32 {
            return;
        }
        let o = self.spec.fsinfo_sector as usize * self.spec.bps as usize;
        put32(&mut self.img, o + 488, free);
        put32(&mut self.img, o + 492, next);
    }

    pub fn finish(self) -> Vec<u8> {
        self.img
    }
}

// ---------------------------------------------------------------- slots

#[derive(Debug, Clone, Copy, Default)]
pub struct Times {
    pub ctime_tenth: u8,
    pub ctime: u16,
    pub cdate: u16,
    pub adate: u16,
    pub mtime: u16,
    pub mdate: u16,
}

pub fn sfn_slot(name: &[u8; 11], attr: u8, nt: u8, t: Times, first_cluster: u32, size: u32) -> [u8; 32] {
    let mut s = [0u8; 32];
    s[0..11].copy_from_slice(name);
    s[11] = attr;
    s[12] = nt;
    s[13] = t.ctime_tenth;
    put16(&mut s, 14, t.ctime);
    put16(&mut s, 16, t.cdate);
    put16(&mut s, 18, t.adate);
    put16(&mut s, 20, (first_cluster >> 16) as u16);
    put16(&mut s, 22, t.mtime);
    put16(&mut s, 24, t.mdate);
    put16(&mut s, 26, first_cluster as u16);
    put32(&mut s, 28, size);
    s
}

pub fn lfn_slot(order: u8, checksum: u8, units: &[u16; 13], attr: u8, typ: u8, cluster: u16) -> [u8; 32] {
    let mut s = [0u8; 32];
    s[0] = order;
    let pos = [1, 3, 5, 7, 9, 14, 16, 18, 20, 22, 24, 28, 30];
    for (k, p) in pos.iter().enumerate() {
        put16(&mut s, *p, units[k]);
    }
    s[11] = attr;
    s[12] = typ;
    s[13] = checksum;
    put16(&mut s, 26, cluster);
    s
}

/// proper long-name run for `units` (stored order: highest index first)
pub fn lfn_run(units: &[u16], sfn: &[u8; 11]) -> Vec<[u8; 32]> {
    let sum = sfn_checksum(sfn);
    let n = (units.len() + 12) / 13;
    let mut out = Vec::new();
    for idx in (1..=n).rev() {
        let mut part = [0xFFFFu16; 13];
        let s = (idx - 1) * 13;
        let e = (s + 13).min(units.len());
        part[..e - s].copy_from_slice(&units[s..e]);
        if e - s < 13 {
            part[e - s] = 0;
        }
        let mut order = idx as u8;
        if idx == n {
            order |= 0x40;
        }
        out.push(lfn_slot(order, sum, &part, 0x0F, 0, 0));
    }
    out
}

pub fn dot_slots(me: u32, parent: u32, t: Times) -> Vec<[u8; 32]> {
    vec![sfn_slot(b".          ", 0x10, 0, t, me, 0), sfn_slot(b"..         ", 0x10, 0, t, parent, 0)]
}

/// DOS date/time packing (independent of the library)
pub fn dos_date(y: u16, m: u16, d: u16) -> u16 {
    ((y - 1980) << 9) | (m << 5) | d
}
pub fn dos_time(h: u16, m: u16, s: u16) -> u16 {
    (h << 11) | (m << 5) | (s / 2)
}
