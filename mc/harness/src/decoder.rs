//! Independent FAT decoder / checker written from the Microsoft FAT specification.
//! Shares no code, constant or helper with the `fatfs` crate. Input: raw device bytes.

use std::collections::{BTreeMap, BTreeSet, HashSet};

use crate::dev::DevState;

fn le16(b: &[u8], o: usize) -> u16 {
    u16::from_le_bytes([b[o], b[o + 1]])
}
fn le32(b: &[u8], o: usize) -> u32 {
    u32::from_le_bytes([b[o], b[o + 1], b[o + 2], b[o + 3]])
}

#[derive(Debug, Clone, PartialEq, Eq)]
pub struct Geo {
    pub bps: u32,
    pub spc: u32,
    pub reserved: u32,
    pub nfats: u32,
    pub root_entries: u32,
    pub total_sectors: u64,
    pub spf: u64,
    pub root_dir_sectors: u64,
    pub fat_start_sec: u64,
    pub root_start_sec: u64,
    pub data_start_sec: u64,
    pub clusters: u64,
    pub width: u8,
    /// BPB layout is the FAT32 one (sectors-per-FAT-16 field is zero)
    pub layout32: bool,
    pub ext_flags: u16,
    pub root_cluster: u32,
    pub fsinfo_sector: u32,
    pub backup_sector: u32,
    pub fs_version: u16,
    pub media: u8,
    pub status_off: u64,
    pub status: u8,
}

/// Purely arithmetic parse (no validity judgement except what is needed to divide).
/// Returns Err for values with which the geometry cannot even be computed.
pub fn parse_raw(boot: &[u8]) -> Result<Geo, String> {
    if boot.len() < 512 {
        return Err("short boot sector".into());
    }
    let bps = le16(boot, 11) as u32;
    let spc = boot[13] as u32;
    let reserved = le16(boot, 14) as u32;
    let nfats = boot[16] as u32;
    let root_entries = le16(boot, 17) as u32;
    let tot16 = le16(boot, 19) as u64;
    let media = boot[21];
    let spf16 = le16(boot, 22) as u64;
    let tot32 = le32(boot, 32) as u64;
    let layout32 = spf16 == 0;
    let (spf, ext_flags, fs_version, root_cluster, fsinfo_sector, backup_sector) = if layout32 {
        (
            le32(boot, 36) as u64,
            le16(boot, 40),
            le16(boot, 42),
            le32(boot, 44),
            le16(boot, 48) as u32,
            le16(boot, 50) as u32,
        )
    } else {
        (spf16, 0, 0, 0, 0, 0)
    };
    let status_off: u64 = if layout32 { 0x41 } else { 0x25 };
    let status = boot[status_off as usize];
    if bps == 0 || spc == 0 {
        return Err(format!("zero sector ({bps}) or cluster ({spc}) size"));
    }
    let total_sectors = if tot16 != 0 { tot16 } else { tot32 };
    let root_dir_sectors = (root_entries as u64 * 32 + bps as u64 - 1) / bps as u64;
    let fat_start_sec = reserved as u64;
    let root_start_sec = fat_start_sec + nfats as u64 * spf;
    let data_start_sec = root_start_sec + root_dir_sectors;
    let clusters = if total_sectors > data_start_sec {
        (total_sectors - data_start_sec) / spc as u64
    } else {
        0
    };
    let width = if clusters < 4085 {
        12
    } else if clusters < 65525 {
        16
    } else {
        32
    };
    Ok(Geo {
        bps,
        spc,
        reserved,
        nfats,
        root_entries,
        total_sectors,
        spf,
        root_dir_sectors,
        fat_start_sec,
        root_start_sec,
        data_start_sec,
        clusters,
        width,
        layout32,
        ext_flags,
        root_cluster,
        fsinfo_sector,
        backup_sector,
        fs_version,
        media,
        status_off,
        status,
    })
}

/// The coherence verdict of C07: reasons why the geometry is NOT coherent (empty = coherent).
pub fn incoherent_reasons(boot: &[u8]) -> Vec<String> {
    let mut r = Vec::new();
    let g = match parse_raw(boot) {
        Ok(g) => g,
        Err(e) => return vec![e],
    };
    if !(g.bps.is_power_of_two() && (512..=4096).contains(&g.bps)) {
        r.push(format!("sector size {} not a power of two in 512..=4096", g.bps));
    }
    if !g.spc.is_power_of_two() {
        r.push(format!("sectors per cluster {} not a power of two", g.spc));
    }
    if g.nfats == 0 {
        r.push("zero FATs".into());
    }
    if g.spf == 0 {
        r.push("zero FAT size".into());
    }
    if g.reserved == 0 {
        r.push("zero reserved sectors".into());
    }
    // regions must fit inside the declared size; u64 arithmetic cannot wrap here
    // (max: 65535 + 255*2^32 + 4096 < 2^41)
    if g.data_start_sec >= g.total_sectors {
        r.push(format!(
            "metadata regions ({} sectors) do not fit in declared total {}",
            g.data_start_sec, g.total_sectors
        ));
    }
    if g.data_start_sec > u32::MAX as u64 {
        r.push("metadata regions exceed 32-bit sector numbers".into());
    }
    if g.layout32 != (g.width == 32) {
        r.push(format!(
            "FAT width {} by cluster count {} inconsistent with BPB layout (fat32 layout: {})",
            g.width, g.clusters, g.layout32
        ));
    }
    if g.width == 32 && g.layout32 {
        if (g.root_cluster as u64) < 2 || (g.root_cluster as u64) > g.clusters + 1 {
            r.push(format!("FAT32 root cluster {} out of range 2..={}", g.root_cluster, g.clusters + 1));
        }
        if g.fsinfo_sector >= g.reserved {
            r.push("fs-info sector outside reserved area".into());
        }
        if g.backup_sector >= g.reserved {
            r.push("backup boot sector outside reserved area".into());
        }
    }
    r
}

impl Geo {
    pub fn cluster_size(&self) -> u64 {
        self.bps as u64 * self.spc as u64
    }
    pub fn max_cluster(&self) -> u32 {
        (self.clusters + 1) as u32
    }
    pub fn cluster_off(&self, c: u32) -> u64 {
        let o = (self.data_start_sec as u128 + (c as u128 - 2) * self.spc as u128) * self.bps as u128;
        o as u64
    }
    pub fn fat_bytes(&self) -> u64 {
        self.spf * self.bps as u64
    }
    pub fn fat_off(&self, copy: u32) -> u64 {
        (self.fat_start_sec + copy as u64 * self.spf) * self.bps as u64
    }
    pub fn root_off(&self) -> u64 {
        self.root_start_sec * self.bps as u64
    }
    pub fn root_bytes(&self) -> u64 {
        self.root_entries as u64 * 32
    }
    pub fn data_off(&self) -> u64 {
        self.data_start_sec * self.bps as u64
    }
    pub fn volume_end(&self) -> u64 {
        self.total_sectors * self.bps as u64
    }
    pub fn data_end(&self) -> u64 {
        self.data_off() + self.clusters * self.cluster_size()
    }
    pub fn mirrored(&self) -> bool {
        !(self.width == 32 && self.ext_flags & 0x80 != 0)
    }
    pub fn active_fat(&self) -> u32 {
        if self.mirrored() {
            0
        } else {
            (self.ext_flags & 0x0F) as u32
        }
    }
    pub fn fat_entries_total(&self) -> u64 {
        self.fat_bytes() * 8 / self.width as u64
    }
    pub fn eoc_min(&self) -> u32 {
        match self.width {
            12 => 0xFF8,
            16 => 0xFFF8,
            _ => 0x0FFF_FFF8,
        }
    }
    pub fn bad_mark(&self) -> u32 {
        match self.width {
            12 => 0xFF7,
            16 => 0xFFF7,
            _ => 0x0FFF_FFF7,
        }
    }
    pub fn fat_entry_off(&self, copy: u32, c: u32) -> (u64, u32) {
        // byte offset and number of bytes of the FAT word holding entry c
        let base = self.fat_off(copy);
        match self.width {
            12 => (base + c as u64 + c as u64 / 2, 2),
            16 => (base + c as u64 * 2, 2),
            _ => (base + c as u64 * 4, 4),
        }
    }
}

#[derive(Debug, Clone, PartialEq, Eq)]
pub enum Region {
    BootStatus,
    BootOther,
    FsInfo,
    BackupBoot,
    ReservedOther,
    Fat(u32),
    Root,
    Cluster(u32),
    Slack,
    Beyond,
}

impl Geo {
    /// classify a single byte offset
    pub fn region(&self, off: u64) -> Region {
        let bps = self.bps as u64;
        if off >= self.volume_end() {
            return Region::Beyond;
        }
        let sec = off / bps;
        if sec < self.reserved as u64 {
            if off == self.status_off {
                return Region::BootStatus;
            }
            if sec == 0 {
                return Region::BootOther;
            }
            if self.width == 32 && self.layout32 {
                if sec == self.fsinfo_sector as u64 && self.fsinfo_sector != 0 {
                    return Region::FsInfo;
                }
                if self.backup_sector != 0
                    && (sec == self.backup_sector as u64 || sec == self.backup_sector as u64 + 1)
                {
                    return Region::BackupBoot;
                }
            }
            return Region::ReservedOther;
        }
        if sec < self.root_start_sec {
            return Region::Fat(((sec - self.fat_start_sec) / self.spf.max(1)) as u32);
        }
        if sec < self.data_start_sec {
            return Region::Root;
        }
        let c = (sec - self.data_start_sec) / self.spc as u64;
        if c < self.clusters {
            Region::Cluster(c as u32 + 2)
        } else {
            Region::Slack
        }
    }
}

pub struct FatView<'a> {
    pub dev: &'a DevState,
    pub geo: &'a Geo,
    pub copy: u32,
    cache: Option<Vec<u8>>,
}

pub const FULL_SCAN_LIMIT: u64 = 300_000;

impl<'a> FatView<'a> {
    pub fn new(dev: &'a DevState, geo: &'a Geo, copy: u32) -> Self {
        let cache = if geo.clusters <= FULL_SCAN_LIMIT && geo.fat_bytes() <= 4 << 20 {
            Some(dev.read_vec(geo.fat_off(copy), geo.fat_bytes() as usize))
        } else {
            None
        };
        FatView { dev, geo, copy, cache }
    }
    pub fn new_uncached(dev: &'a DevState, geo: &'a Geo, copy: u32) -> Self {
        FatView { dev, geo, copy, cache: None }
    }
    fn bytes(&self, rel: u64, n: usize) -> [u8; 4] {
        let mut b = [0u8; 4];
        if let Some(c) = &self.cache {
            let s = rel as usize;
            for i in 0..n {
                b[i] = *c.get(s + i).unwrap_or(&0);
            }
        } else {
            self.dev.read_at(self.geo.fat_off(self.copy) + rel, &mut b[..n]);
        }
        b
    }
    /// raw entry value (FAT32: all 32 bits)
    pub fn raw(&self, c: u32) -> u32 {
        match self.geo.width {
            12 => {
                let b = self.bytes(c as u64 + c as u64 / 2, 2);
                let w = u16::from_le_bytes([b[0], b[1]]);
                (if c & 1 == 0 { w & 0x0FFF } else { w >> 4 }) as u32
            }
            16 => {
                let b = self.bytes(c as u64 * 2, 2);
                u16::from_le_bytes([b[0], b[1]]) as u32
            }
            _ => {
                let b = self.bytes(c as u64 * 4, 4);
                u32::from_le_bytes(b)
            }
        }
    }
    /// entry value with the FAT32 reserved nibble masked off
    pub fn get(&self, c: u32) -> u32 {
        let r = self.raw(c);
        if self.geo.width == 32 {
            r & 0x0FFF_FFFF
        } else {
            r
        }
    }
}

pub use crate::lfn::{judge_run, sfn_checksum, short_display, Lfn};

#[derive(Debug, Clone)]
pub struct DEntry {
    pub name: String,
    pub long_units: Option<Vec<u16>>,
    /// alternative reading when `lfn == Ambiguous`: all units with trailing NUL/0xFFFF stripped
    pub long_units_alt: Option<Vec<u16>>,
    pub lfn: Lfn,
    pub lfn_slots: usize,
    pub sfn: [u8; 11],
    pub short_display: String,
    pub attr: u8,
    pub nt: u8,
    pub ctime_tenth: u8,
    pub ctime: u16,
    pub cdate: u16,
    pub adate: u16,
    pub mtime: u16,
    pub mdate: u16,
    pub first_cluster: u32,
    pub size: u32,
    pub slot_first: usize,
    pub slot_sfn: usize,
    pub sfn_abs: u64,
    pub chain: Vec<u32>,
    pub chain_ok: bool,
    pub content: Option<Vec<u8>>,
    /// index into `Decoded::dirs` for subdirectories that were descended into
    pub child: Option<usize>,
    pub live: bool,
}

impl DEntry {
    pub fn is_dir(&self) -> bool {
        self.attr & 0x10 != 0
    }
    pub fn is_label(&self) -> bool {
        self.attr & 0x08 != 0
    }
    pub fn is_dot(&self) -> bool {
        &self.sfn == b".          " || &self.sfn == b"..         "
    }
}

#[derive(Debug, Clone)]
pub struct DDir {
    pub path: String,
    pub first_cluster: u32,
    pub parent_cluster: u32,
    pub chain: Vec<u32>,
    /// absolute offset of every slot
    pub slot_abs: Vec<u64>,
    pub slots: Vec<[u8; 32]>,
    pub end_idx: Option<usize>,
    pub entries: Vec<DEntry>,
    pub labels: Vec<(usize, [u8; 11])>,
    pub orphan_lfn_slots: Vec<usize>,
}

#[derive(Debug, Clone, PartialEq, Eq, PartialOrd, Ord)]
pub struct Finding {
    pub sig: String,
    pub msg: String,
}

#[derive(Debug, Clone)]
pub struct Decoded {
    pub geo: Geo,
    pub dirs: Vec<DDir>,
    pub owner: BTreeMap<u32, String>,
    pub findings: Vec<Finding>,
    pub free: u64,
    pub bad: u64,
    pub used: u64,
    pub fat0: u32,
    pub fat1: u32,
    pub full_scan: bool,
}

/// In-memory state of a live handle that supersedes the on-disk entry (deferred metadata).
#[derive(Debug, Clone, Copy)]
pub struct LiveHandle {
    pub entry_abs: u64,
    pub first_cluster: Option<u32>,
}

pub struct DecodeOpts<'a> {
    pub live: &'a [LiveHandle],
    /// clusters to examine for lost-cluster / free counting when the FAT is too large to scan
    pub candidates: Option<&'a [u32]>,
    pub read_content: bool,
    /// treat attribute bytes with extra bits (0x1F, 0x3F…) as long-name slots like the library does
    pub lfn_attr_loose: bool,
    pub max_dirs: usize,
}

impl<'a> Default for DecodeOpts<'a> {
    fn default() -> Self {
        DecodeOpts {
            live: &[],
            candidates: None,
            read_content: true,
            lfn_attr_loose: false,
            max_dirs: 4096,
        }
    }
}

/// Result of walking one chain.
pub struct Chain {
    pub clusters: Vec<u32>,
    pub ok: bool,
    pub problem: Option<String>,
}

pub fn walk_chain(fat: &FatView, start: u32, limit: usize) -> Chain {
    let geo = fat.geo;
    let mut clusters = Vec::new();
    let mut seen = HashSet::new();
    let mut c = start;
    loop {
        if c < 2 || c > geo.max_cluster() {
            return Chain { clusters, ok: false, problem: Some(format!("link to out-of-range cluster {c}")) };
        }
        if !seen.insert(c) {
            return Chain { clusters, ok: false, problem: Some(format!("cycle at cluster {c}")) };
        }
        clusters.push(c);
        if clusters.len() > limit {
            return Chain { clusters, ok: false, problem: Some("chain longer than limit".into()) };
        }
        let v = fat.get(c);
        if v >= geo.eoc_min() {
            return Chain { clusters, ok: true, problem: None };
        }
        if v == 0 {
            return Chain { clusters, ok: false, problem: Some(format!("chain runs into free cluster entry at {c}")) };
        }
        if v == geo.bad_mark() {
            return Chain { clusters, ok: false, problem: Some(format!("chain runs into bad mark at {c}")) };
        }
        c = v;
    }
}

struct Ctx<'a, 'b> {
    dev: &'a DevState,
    geo: &'a Geo,
    fat: FatView<'a>,
    opts: &'b DecodeOpts<'b>,
    owner: BTreeMap<u32, String>,
    findings: Vec<Finding>,
    dirs: Vec<DDir>,
    visited_dirs: HashSet<u32>,
}

impl<'a, 'b> Ctx<'a, 'b> {
    fn find(&mut self, sig: &str, msg: String) {
        self.findings.push(Finding { sig: sig.to_string(), msg });
    }

    fn own(&mut self, chain: &[u32], who: &str) {
        for c in chain {
            if let Some(prev) = self.owner.get(c) {
                let prev = prev.clone();
                self.find("I1/cross-link", format!("cluster {c} owned by {prev} and {who}"));
            } else {
                self.owner.insert(*c, who.to_string());
            }
        }
    }

    fn read_slots(&self, chain: &[u32], fixed_root: bool) -> (Vec<u64>, Vec<[u8; 32]>) {
        let mut abs = Vec::new();
        let mut slots = Vec::new();
        let mut push_area = |off: u64, len: u64| {
            let bytes = self.dev.read_vec(off, len as usize);
            for (i, ch) in bytes.chunks_exact(32).enumerate() {
                let mut s = [0u8; 32];
                s.copy_from_slice(ch);
                abs.push(off + i as u64 * 32);
                slots.push(s);
            }
        };
        if fixed_root {
            push_area(self.geo.root_off(), self.geo.root_bytes());
        } else {
            for c in chain {
                push_area(self.geo.cluster_off(*c), self.geo.cluster_size());
            }
        }
        (abs, slots)
    }

    /// decode one directory; returns its index
    fn dir(&mut self, path: &str, first_cluster: u32, parent_cluster: u32, fixed_root: bool, is_root: bool) -> usize {
        let mut chain = Vec::new();
        if !fixed_root {
            let ch = walk_chain(&self.fat, first_cluster, 1 << 16);
            if !ch.ok {
                self.find("I1/dir-chain", format!("directory {path}: {}", ch.problem.clone().unwrap_or_default()));
            }
            chain = ch.clusters;
            let who = format!("dir:{path}");
            let chain_c = chain.clone();
            self.own(&chain_c, &who);
        }
        let (slot_abs, slots) = self.read_slots(&chain, fixed_root);
        let idx = self.dirs.len();
        self.dirs.push(DDir {
            path: path.to_string(),
            first_cluster,
            parent_cluster,
            chain,
            slot_abs,
            slots,
            end_idx: None,
            entries: Vec::new(),
            labels: Vec::new(),
            orphan_lfn_slots: Vec::new(),
        });
        self.parse_entries(idx, is_root);
        // recurse
        let n = self.dirs[idx].entries.len();
        for ei in 0..n {
            let (is_dir, is_dot, fc, name) = {
                let e = &self.dirs[idx].entries[ei];
                (e.is_dir(), e.is_dot(), e.first_cluster, e.name.clone())
            };
            if !is_dir || is_dot {
                continue;
            }
            let cpath = if path == "/" { format!("/{name}") } else { format!("{path}/{name}") };
            if fc == 0 {
                self.find("I2/dir-no-cluster", format!("directory {cpath} has first cluster 0"));
                continue;
            }
            if fc < 2 || fc > self.geo.max_cluster() {
                self.find("I1/dir-first-cluster-range", format!("directory {cpath} first cluster {fc} out of range"));
                continue;
            }
            if !self.visited_dirs.insert(fc) {
                self.find("I1/dir-cross-link", format!("directory cluster {fc} reached twice (at {cpath})"));
                continue;
            }
            if self.dirs.len() >= self.opts.max_dirs {
                self.find("X/too-many-dirs", "directory limit".into());
                continue;
            }
            let my_cluster = if is_root { 0 } else { first_cluster };
            let ci = self.dir(&cpath, fc, my_cluster, false, false);
            self.dirs[idx].entries[ei].child = Some(ci);
        }
        idx
    }

    fn parse_entries(&mut self, di: usize, is_root: bool) {
        let slots = self.dirs[di].slots.clone();
        let slot_abs = self.dirs[di].slot_abs.clone();
        let path = self.dirs[di].path.clone();
        let loose = self.opts.lfn_attr_loose;
        // pending long-name run: (slot idx, order byte, checksum, 13 units, type, cluster)
        let mut run: Vec<(usize, u8, u8, [u16; 13], u8, u16)> = Vec::new();
        let mut end_idx = None;
        let mut entries = Vec::new();
        let mut labels = Vec::new();
        let mut orphans: Vec<usize> = Vec::new();
        let mut i = 0;
        while i < slots.len() {
            let s = &slots[i];
            if s[0] == 0x00 {
                end_idx = Some(i);
                break;
            }
            if s[0] == 0xE5 {
                orphans.extend(run.iter().map(|r| r.0));
                run.clear();
                i += 1;
                continue;
            }
            let attr = s[11];
            let is_lfn = if loose { attr & 0x0F == 0x0F } else { attr & 0x3F == 0x0F };
            if is_lfn {
                let mut u = [0u16; 13];
                let pos = [1, 3, 5, 7, 9, 14, 16, 18, 20, 22, 24, 28, 30];
                for (k, p) in pos.iter().enumerate() {
                    u[k] = le16(s, *p);
                }
                // a slot carrying the last-flag starts a new set; pending slots before it are orphans
                if s[0] & 0x40 != 0 {
                    orphans.extend(run.iter().map(|r| r.0));
                    run.clear();
                } else if run.is_empty() {
                    orphans.push(i);
                    i += 1;
                    continue;
                }
                run.push((i, s[0], s[13], u, s[12], le16(s, 26)));
                i += 1;
                continue;
            }
            // short entry (file, directory or label)
            let mut sfn = [0u8; 11];
            sfn.copy_from_slice(&s[0..11]);
            if attr & 0x08 != 0 {
                // volume label: terminates (orphans) any pending run
                orphans.extend(run.iter().map(|r| r.0));
                run.clear();
                labels.push((i, sfn));
                i += 1;
                continue;
            }
            let nt = s[12];
            let (lfn, long_units, long_alt) = judge_run(&run, &sfn);
            if let Lfn::Broken(_) = lfn {
                orphans.extend(run.iter().map(|r| r.0));
            }
            let disp = short_display(&sfn, nt);
            let name = match (&lfn, &long_units) {
                (Lfn::Valid | Lfn::Ambiguous, Some(u)) => String::from_utf16_lossy(u),
                _ => disp.clone(),
            };
            let fc_hi = if self.geo.width == 32 { le16(s, 20) as u32 } else { 0 };
            let first_cluster = (fc_hi << 16) | le16(s, 26) as u32;
            let slot_first = run.first().map_or(i, |r| r.0);
            entries.push(DEntry {
                name,
                long_units,
                long_units_alt: long_alt,
                lfn,
                lfn_slots: run.len(),
                sfn,
                short_display: disp,
                attr,
                nt,
                ctime_tenth: s[13],
                ctime: le16(s, 14),
                cdate: le16(s, 16),
                adate: le16(s, 18),
                mtime: le16(s, 22),
                mdate: le16(s, 24),
                first_cluster,
                size: le32(s, 28),
                slot_first,
                slot_sfn: i,
                sfn_abs: slot_abs[i],
                chain: Vec::new(),
                chain_ok: true,
                content: None,
                child: None,
                live: false,
            });
            run.clear();
            i += 1;
        }
        orphans.extend(run.iter().map(|r| r.0));
        // I4: nothing after the end marker
        if let Some(e) = end_idx {
            for (j, s) in slots.iter().enumerate().skip(e + 1) {
                if s[0] != 0 {
                    self.find("I4/after-end", format!("directory {path}: slot {j} non-empty after end marker at {e}"));
                    break;
                }
            }
        }
        if !orphans.is_empty() {
            self.find("I5/orphan-lfn", format!("directory {path}: orphan/broken long-name slots {orphans:?}"));
        }
        // I5 details for valid runs: type 0, cluster 0, padding
        for e in &entries {
            if e.lfn == Lfn::Ambiguous {
                self.findings.push(Finding {
                    sig: "I5/lfn-padding".into(),
                    msg: format!("directory {path}: entry {} has non-0xFFFF units after NUL", e.name),
                });
            }
            for si in e.slot_first..e.slot_sfn {
                let s = &slots[si];
                if s[11] & 0x3F == 0x0F && (s[12] != 0 || le16(s, 26) != 0) {
                    self.findings.push(Finding {
                        sig: "I5/lfn-type-cluster".into(),
                        msg: format!("directory {path}: long-name slot {si} has type {} cluster {}", s[12], le16(s, 26)),
                    });
                }
            }
        }
        // I3: dot entries of a subdirectory
        if !is_root {
            let me = self.dirs[di].first_cluster;
            let parent = self.dirs[di].parent_cluster;
            let ok0 = entries.first().map_or(false, |e| {
                e.slot_sfn == 0 && &e.sfn == b".          " && e.is_dir() && e.first_cluster == me
            });
            let ok1 = entries.get(1).map_or(false, |e| {
                e.slot_sfn == 1 && &e.sfn == b"..         " && e.is_dir() && e.first_cluster == parent
            });
            if !ok0 {
                self.find("I3/dot", format!("directory {path}: slot 0 is not '.' -> {me}"));
            }
            if !ok1 {
                let got = entries.get(1).map(|e| e.first_cluster);
                self.find("I3/dotdot", format!("directory {path}: slot 1 is not '..' -> {parent} (got {got:?})"));
            }
        }
        // I6: duplicates
        let mut longs = BTreeSet::new();
        let mut shorts = BTreeSet::new();
        for e in &entries {
            if e.is_dot() {
                continue;
            }
            let folded: String = e.name.chars().flat_map(char::to_uppercase).collect();
            if !longs.insert(folded.clone()) {
                self.find("I6/dup-long", format!("directory {path}: duplicate name {folded}"));
            }
            if !shorts.insert(e.sfn) {
                self.find("I6/dup-short", format!("directory {path}: duplicate short name {:?}", e.short_display));
            }
        }
        // files: chains, sizes, content
        let cs = self.geo.cluster_size();
        for e in &mut entries {
            if e.is_dir() {
                if e.size != 0 && !e.is_dot() {
                    self.findings.push(Finding {
                        sig: "I2/dir-size".into(),
                        msg: format!("directory entry {path}/{} has size {}", e.name, e.size),
                    });
                }
                continue;
            }
            let live = self.opts.live.iter().find(|l| l.entry_abs == e.sfn_abs).copied();
            let fc = match live {
                Some(l) => {
                    e.live = true;
                    l.first_cluster.unwrap_or(0)
                }
                None => e.first_cluster,
            };
            let fpath = if path == "/" { format!("/{}", e.name) } else { format!("{path}/{}", e.name) };
            if fc == 0 {
                if e.size != 0 && live.is_none() {
                    self.findings.push(Finding {
                        sig: "I2/size-without-cluster".into(),
                        msg: format!("file {fpath}: size {} but first cluster 0", e.size),
                    });
                    e.chain_ok = false;
                }
                e.content = Some(Vec::new());
                continue;
            }
            let expect = ((e.size as u64 + cs - 1) / cs) as usize;
            let ch = walk_chain(&self.fat, fc, expect.max(1) + 1_000_000);
            e.chain = ch.clusters.clone();
            e.chain_ok = ch.ok;
            if !ch.ok {
                self.findings.push(Finding {
                    sig: "I1/file-chain".into(),
                    msg: format!("file {fpath}: {}", ch.problem.unwrap_or_default()),
                });
            }
            let who = format!("file:{fpath}");
            for c in &ch.clusters {
                if let Some(prev) = self.owner.get(c) {
                    let prev = prev.clone();
                    self.findings.push(Finding {
                        sig: "I1/cross-link".into(),
                        msg: format!("cluster {c} owned by {prev} and {who}"),
                    });
                } else {
                    self.owner.insert(*c, who.clone());
                }
            }
            if live.is_none() && ch.ok {
                if e.size == 0 {
                    self.findings.push(Finding {
                        sig: "I2/empty-file-owns-cluster".into(),
                        msg: format!("file {fpath}: size 0 but first cluster {fc}"),
                    });
                } else if e.chain.len() != expect {
                    self.findings.push(Finding {
                        sig: "I2/chain-length".into(),
                        msg: format!("file {fpath}: size {} needs {expect} clusters, chain has {}", e.size, e.chain.len()),
                    });
                }
            }
            if self.opts.read_content {
                let mut data = Vec::with_capacity(e.size as usize);
                let mut left = e.size as u64;
                for c in &e.chain {
                    if left == 0 {
                        break;
                    }
                    let n = left.min(cs);
                    data.extend_from_slice(&self.dev.read_vec(self.geo.cluster_off(*c), n as usize));
                    left -= n;
                }
                e.content = Some(data);
            }
        }
        let d = &mut self.dirs[di];
        d.end_idx = end_idx;
        d.entries = entries;
        d.labels = labels;
        d.orphan_lfn_slots = orphans;
    }
}

pub fn decode(dev: &DevState, opts: &DecodeOpts) -> Result<Decoded, String> {
    let boot = dev.read_vec(0, 512);
    let geo = parse_raw(&boot)?;
    let reasons = incoherent_reasons(&boot);
    if !reasons.is_empty() {
        return Err(format!("incoherent geometry: {reasons:?}"));
    }
    decode_with_geo(dev, &geo, opts)
}

pub fn decode_with_geo(dev: &DevState, geo: &Geo, opts: &DecodeOpts) -> Result<Decoded, String> {
    let fat = FatView::new(dev, geo, geo.active_fat());
    let fat0 = fat.raw(0);
    let fat1 = fat.raw(1);
    let mut cx = Ctx {
        dev,
        geo,
        fat,
        opts,
        owner: BTreeMap::new(),
        findings: Vec::new(),
        dirs: Vec::new(),
        visited_dirs: HashSet::new(),
    };
    if geo.width == 32 {
        cx.visited_dirs.insert(geo.root_cluster);
        cx.dir("/", geo.root_cluster, 0, false, true);
    } else {
        cx.dir("/", 0, 0, true, true);
    }
    // allocation scan
    let (mut free, mut bad, mut used) = (0u64, 0u64, 0u64);
    let full_scan = opts.candidates.is_none() && geo.clusters <= FULL_SCAN_LIMIT;
    let mut lost = Vec::new();
    let mut examine = |c: u32, cx: &mut Ctx| {
        let v = cx.fat.get(c);
        if v == 0 {
            free += 1;
            if let Some(o) = cx.owner.get(&c) {
                let o = o.clone();
                cx.find("I1/owned-but-free", format!("cluster {c} is in the chain of {o} but marked free"));
            }
        } else if v == geo.bad_mark() {
            bad += 1;
        } else {
            used += 1;
            if !cx.owner.contains_key(&c) {
                lost.push(c);
            }
        }
    };
    if full_scan {
        for c in 2..=geo.max_cluster() {
            examine(c, &mut cx);
        }
    } else if let Some(cands) = opts.candidates {
        let mut set: BTreeSet<u32> = cands.iter().copied().collect();
        set.extend(cx.owner.keys().copied());
        for c in set {
            if c >= 2 && c <= geo.max_cluster() {
                examine(c, &mut cx);
            }
        }
    }
    if !lost.is_empty() {
        // attribute lost clusters to live handles whose first cluster is not recorded yet
        let mut still = Vec::new();
        let mut live_owned: HashSet<u32> = HashSet::new();
        for l in opts.live {
            if let Some(fc) = l.first_cluster {
                if !cx.owner.contains_key(&fc) {
                    let ch = walk_chain(&cx.fat, fc, 1 << 20);
                    live_owned.extend(ch.clusters);
                }
            }
        }
        for c in lost {
            if !live_owned.contains(&c) {
                still.push(c);
            }
        }
        if !still.is_empty() {
            cx.find("I1/lost-clusters", format!("clusters allocated but unreachable: {still:?}"));
        }
    }
    let mut findings = cx.findings;
    findings.sort();
    findings.dedup();
    Ok(Decoded {
        geo: geo.clone(),
        dirs: cx.dirs,
        owner: cx.owner,
        findings,
        free,
        bad,
        used,
        fat0,
        fat1,
        full_scan,
    })
}

/// Flattened view used for comparisons with the reference model.
#[derive(Debug, Clone, PartialEq, Eq)]
pub struct FlatNode {
    pub is_dir: bool,
    pub size: u32,
    pub attr: u8,
    pub content: Option<Vec<u8>>,
    pub short: String,
}

impl Decoded {
    /// path ("/a/b", case preserved) -> node; dot entries and labels excluded
    pub fn flat(&self) -> BTreeMap<String, FlatNode> {
        let mut out = BTreeMap::new();
        for d in &self.dirs {
            for e in &d.entries {
                if e.is_dot() {
                    continue;
                }
                let p = if d.path == "/" { format!("/{}", e.name) } else { format!("{}/{}", d.path, e.name) };
                out.insert(
                    p,
                    FlatNode {
                        is_dir: e.is_dir(),
                        size: e.size,
                        attr: e.attr,
                        content: e.content.clone(),
                        short: e.short_display.clone(),
                    },
                );
            }
        }
        out
    }

    pub fn find_entry(&self, path: &str) -> Option<&DEntry> {
        for d in &self.dirs {
            for e in &d.entries {
                if e.is_dot() {
                    continue;
                }
                let p = if d.path == "/" { format!("/{}", e.name) } else { format!("{}/{}", d.path, e.name) };
                if p == path {
                    return Some(e);
                }
            }
        }
        None
    }

    pub fn dir_by_path(&self, path: &str) -> Option<&DDir> {
        self.dirs.iter().find(|d| d.path == path)
    }
}

/// FS-info sector fields (FAT32): (lead ok, struct ok, trail ok, free count, next free)
pub fn fsinfo(dev: &DevState, geo: &Geo) -> Option<(bool, bool, bool, u32, u32)> {
    if geo.width != 32 {
        return None;
    }
    let b = dev.read_vec(geo.fsinfo_sector as u64 * geo.bps as u64, 512);
    Some((
        le32(&b, 0) == 0x4161_5252,
        le32(&b, 484) == 0x6141_7272,
        le32(&b, 508) == 0xAA55_0000,
        le32(&b, 488),
        le32(&b, 492),
    ))
}
