//! Feature-variant driver: one source compiled three times against different `fatfs` feature sets
//! (A = std+alloc+lfn+unicode, B = std+lfn+unicode (fixed long-name buffer), C = std+alloc+lfn).
//! Uses only APIs present in every build. Modes:
//!   c17 <image> <dir: root|sub> <tier>   directory decoding on crafted slot contents (C17)
//!   c19 <image> <tier> <out>             operation histories with long names, trace written to <out> (C19)

#[path = "../shared/lfn.rs"]
#[allow(dead_code)]
mod lfn;

use std::cell::RefCell;
use std::collections::BTreeMap;
use std::panic::{catch_unwind, AssertUnwindSafe};
use std::rc::Rc;

use fatfs::{FileSystem, FsOptions, IoBase, Read, Seek, SeekFrom, Write};

use lfn::*;

struct Disk {
    data: Rc<RefCell<Vec<u8>>>,
    pos: u64,
    budget: Rc<RefCell<u64>>,
}

impl IoBase for Disk {
    type Error = ();
}
impl Read for Disk {
    fn read(&mut self, buf: &mut [u8]) -> Result<usize, ()> {
        let mut b = self.budget.borrow_mut();
        if *b == 0 {
            return Err(());
        }
        *b -= 1;
        let d = self.data.borrow();
        let p = self.pos as usize;
        if p >= d.len() {
            return Ok(0);
        }
        let n = buf.len().min(d.len() - p);
        buf[..n].copy_from_slice(&d[p..p + n]);
        self.pos += n as u64;
        Ok(n)
    }
}
impl Write for Disk {
    fn write(&mut self, buf: &[u8]) -> Result<usize, ()> {
        let mut d = self.data.borrow_mut();
        let p = self.pos as usize;
        if p >= d.len() {
            return Ok(0);
        }
        let n = buf.len().min(d.len() - p);
        d[p..p + n].copy_from_slice(&buf[..n]);
        self.pos += n as u64;
        Ok(n)
    }
    fn flush(&mut self) -> Result<(), ()> {
        Ok(())
    }
}
impl Seek for Disk {
    fn seek(&mut self, pos: SeekFrom) -> Result<u64, ()> {
        let len = self.data.borrow().len() as i128;
        let n: i128 = match pos {
            SeekFrom::Start(x) => x as i128,
            SeekFrom::Current(d) => self.pos as i128 + d as i128,
            SeekFrom::End(d) => len + d as i128,
        };
        if n < 0 {
            return Err(());
        }
        self.pos = n as u64;
        Ok(self.pos)
    }
}

/// copy-on-write disk: shared immutable base + overlay of modified 512-byte pages
struct CowDisk {
    base: Rc<Vec<u8>>,
    overlay: Rc<RefCell<BTreeMap<u64, Box<[u8; 512]>>>>,
    pos: u64,
}

impl IoBase for CowDisk {
    type Error = ();
}
impl Read for CowDisk {
    fn read(&mut self, buf: &mut [u8]) -> Result<usize, ()> {
        let len = self.base.len() as u64;
        if self.pos >= len {
            return Ok(0);
        }
        let n = (buf.len() as u64).min(len - self.pos) as usize;
        let ov = self.overlay.borrow();
        let mut done = 0;
        while done < n {
            let o = self.pos + done as u64;
            let (pno, inp) = (o / 512, (o % 512) as usize);
            let k = (512 - inp).min(n - done);
            match ov.get(&pno) {
                Some(p) => buf[done..done + k].copy_from_slice(&p[inp..inp + k]),
                None => buf[done..done + k].copy_from_slice(&self.base[o as usize..o as usize + k]),
            }
            done += k;
        }
        self.pos += n as u64;
        Ok(n)
    }
}
impl Write for CowDisk {
    fn write(&mut self, buf: &[u8]) -> Result<usize, ()> {
        let len = self.base.len() as u64;
        if self.pos >= len {
            return Ok(0);
        }
        let n = (buf.len() as u64).min(len - self.pos) as usize;
        let mut ov = self.overlay.borrow_mut();
        let mut done = 0;
        while done < n {
            let o = self.pos + done as u64;
            let (pno, inp) = (o / 512, (o % 512) as usize);
            let k = (512 - inp).min(n - done);
            let base = &self.base;
            let p = ov.entry(pno).or_insert_with(|| {
                let mut b = Box::new([0u8; 512]);
                let s = (pno * 512) as usize;
                let e = (s + 512).min(base.len());
                b[..e - s].copy_from_slice(&base[s..e]);
                b
            });
            p[inp..inp + k].copy_from_slice(&buf[done..done + k]);
            done += k;
        }
        self.pos += n as u64;
        Ok(n)
    }
    fn flush(&mut self) -> Result<(), ()> {
        Ok(())
    }
}
impl Seek for CowDisk {
    fn seek(&mut self, pos: SeekFrom) -> Result<u64, ()> {
        let len = self.base.len() as i128;
        let n: i128 = match pos {
            SeekFrom::Start(x) => x as i128,
            SeekFrom::Current(d) => self.pos as i128 + d as i128,
            SeekFrom::End(d) => len + d as i128,
        };
        if n < 0 {
            return Err(());
        }
        self.pos = n as u64;
        Ok(self.pos)
    }
}

/// The OEM code-page converter the C17 volumes are mounted with. Outside the `oem-alt` pass it IS the crate's default
/// converter (every call is delegated to `LossyOemCpConverter`); in the `oem-alt` pass it is an injective test code page
/// (byte b >= 0x80 <-> U+0100 + b), so that an 8.3 text the library produces with anything but the converter of the volume
/// (a hard-coded default, a lossy shortcut) differs from what the oracle spells with `lfn::oem_decode`.
#[derive(Debug, Clone, Copy)]
struct DrvCp;

impl fatfs::OemCpConverter for DrvCp {
    fn decode(&self, oem_char: u8) -> char {
        if lfn::OEM_ALT.load(std::sync::atomic::Ordering::Relaxed) {
            lfn::oem_decode(oem_char)
        } else {
            fatfs::LossyOemCpConverter::new().decode(oem_char)
        }
    }
    fn encode(&self, uni_char: char) -> Option<u8> {
        if lfn::OEM_ALT.load(std::sync::atomic::Ordering::Relaxed) {
            match u32::from(uni_char) {
                c @ 0..=0x7F => Some(c as u8),
                c @ 0x180..=0x1FF => Some((c - 0x100) as u8),
                _ => None,
            }
        } else {
            fatfs::LossyOemCpConverter::new().encode(uni_char)
        }
    }
}

type Fs = FileSystem<Disk, fatfs::DefaultTimeProvider, DrvCp>;

fn mount(data: &Rc<RefCell<Vec<u8>>>, budget: &Rc<RefCell<u64>>) -> Fs {
    FileSystem::new(Disk { data: data.clone(), pos: 0, budget: budget.clone() }, FsOptions::new().oem_cp_converter(DrvCp)).expect("mount")
}

thread_local! {
    static LAST_PANIC: RefCell<String> = const { RefCell::new(String::new()) };
}

fn panic_class(p: &str) -> String {
    let t = p.split(" @ ").next().unwrap_or(p);
    let loc = p.split(" @ ").nth(1).unwrap_or("").rsplit('/').next().unwrap_or("").split(':').next().unwrap_or("").to_string();
    format!("{}-in-{}", t.chars().map(|c| if c.is_ascii_alphanumeric() { c } else { '-' }).take(48).collect::<String>(), loc)
}

// ------------------------------------------------------------------------------------------ C17

struct DirLoc {
    /// byte offsets of the patchable slots, in order
    slot_offs: Vec<usize>,
    sub: bool,
}

fn locate(img: &[u8], sub: bool) -> DirLoc {
    let bps = le16(img, 11) as usize;
    let spc = img[13] as usize;
    let reserved = le16(img, 14) as usize;
    let nfats = img[16] as usize;
    let root_entries = le16(img, 17) as usize;
    let spf16 = le16(img, 22) as usize;
    let spf = if spf16 != 0 { spf16 } else { u32::from_le_bytes([img[36], img[37], img[38], img[39]]) as usize };
    let root_secs = (root_entries * 32 + bps - 1) / bps;
    let root_off = (reserved + nfats * spf) * bps;
    let data_off = root_off + root_secs * bps;
    if !sub {
        assert!(root_entries > 0, "root mode needs a fixed root");
        return DirLoc { slot_offs: (0..root_entries).map(|i| root_off + i * 32).collect(), sub };
    }
    // subdirectory "SUB" : first entry of the root (fixed root or FAT32 root cluster 2); its chain is contiguous
    let root_first = if root_entries > 0 { root_off } else { data_off };
    let e = &img[root_first..root_first + 32];
    assert_eq!(&e[0..3], b"SUB", "image must have SUB as first root entry");
    let fc = ((le16(e, 20) as usize) << 16) | le16(e, 26) as usize;
    let nclus = 3; // the image builder gives SUB three contiguous clusters
    let cs = bps * spc;
    let start = data_off + (fc - 2) * cs;
    let total = nclus * cs / 32;
    DirLoc { slot_offs: (2..total).map(|i| start + i * 32).collect(), sub }
}

fn list(fs: &Fs, sub: bool) -> Result<Vec<Got>, String> {
    let root = fs.root_dir();
    let dir = if sub { root.open_dir("SUB").map_err(|e| format!("open SUB: {e:?}"))? } else { root };
    let mut out = Vec::new();
    let mut n = 0;
    for r in dir.iter() {
        n += 1;
        if n > 100_000 {
            return Err("iteration does not end".into());
        }
        let e = match r {
            Ok(e) => e,
            Err(e) => return Err(format!("iteration error {e:?}")),
        };
        // every accessor
        let short = e.short_file_name_as_bytes().to_vec();
        let long = e.long_file_name_as_ucs2_units().map(<[u16]>::to_vec);
        let attr = e.attributes().bits();
        let _ = (e.is_dir(), e.is_file(), e.len(), e.created(), e.modified(), e.accessed());
        #[cfg(feature = "has_alloc")]
        let names = Some((e.file_name(), e.short_file_name()));
        #[cfg(not(feature = "has_alloc"))]
        let names = None;
        out.push(Got { short, long, attr, names });
    }
    Ok(out)
}

struct Worker {
    data: Rc<RefCell<Vec<u8>>>,
    budget: Rc<RefCell<u64>>,
    fs: Option<Fs>,
    loc: DirLoc,
    pristine: Vec<u8>,
    evals: u64,
    hash: u64,
    viols: BTreeMap<String, (String, u64)>,
}

impl Worker {
    fn new(img: &[u8], sub: bool) -> Worker {
        let data = Rc::new(RefCell::new(img.to_vec()));
        let budget = Rc::new(RefCell::new(u64::MAX));
        let loc = locate(img, sub);
        let fs = Some(mount(&data, &budget));
        Worker { data, budget, fs, loc, pristine: img.to_vec(), evals: 0, hash: 0, viols: BTreeMap::new() }
    }

    fn viol(&mut self, sig: String, msg: String) {
        self.viols.entry(sig).or_insert((msg, 0)).1 += 1;
    }

    /// place `slots` (then an end marker) at the start of the area, or flush right at its end
    fn run_case(&mut self, id: &str, slots: &[[u8; 32]], at_end: bool) {
        self.evals += 1;
        let n = self.loc.slot_offs.len();
        assert!(slots.len() < n);
        let mut area: Vec<[u8; 32]> = Vec::with_capacity(n);
        if at_end {
            let mut del = [0u8; 32];
            del[0] = 0xE5;
            del[11] = 0x20;
            for _ in 0..n - slots.len() {
                area.push(del);
            }
            area.extend_from_slice(slots);
        } else {
            area.extend_from_slice(slots);
            while area.len() < n {
                area.push([0u8; 32]);
            }
        }
        {
            let mut d = self.data.borrow_mut();
            for (i, off) in self.loc.slot_offs.iter().enumerate() {
                d[*off..*off + 32].copy_from_slice(&area[i]);
            }
        }
        *self.budget.borrow_mut() = 400_000;
        let sub = self.loc.sub;
        let fs = self.fs.take().unwrap_or_else(|| mount(&self.data, &self.budget));
        let r = catch_unwind(AssertUnwindSafe(|| list(&fs, sub)));
        let hung = *self.budget.borrow() == 0;
        *self.budget.borrow_mut() = u64::MAX;
        let mut h = 0xcbf2_9ce4_8422_2325u64;
        fnv(&mut h, id.as_bytes());
        match r {
            Err(_) => {
                std::mem::forget(fs);
                let p = LAST_PANIC.with(|p| p.borrow().clone());
                self.viol(format!("C17/panic/{}", panic_class(&p)), format!("case {id}: {p}"));
                fnv(&mut h, b"panic");
            }
            Ok(res) => {
                self.fs = Some(fs);
                if hung {
                    self.viol("C17/iteration-does-not-terminate".into(), format!("case {id}: device-call budget exhausted"));
                }
                match res {
                    Err(e) => {
                        if !hung {
                            self.viol("C17/iteration-error".into(), format!("case {id}: {e}"));
                        }
                        fnv(&mut h, e.as_bytes());
                    }
                    Ok(got) => {
                        let got: Vec<Got> = if sub { got.into_iter().skip(2).collect() } else { got };
                        let mut lookup_panics: Vec<String> = Vec::new();
                        for g in &got {
                            fnv(&mut h, &g.short);
                            fnv(&mut h, &[g.attr, g.long.is_some() as u8]);
                            if let Some(l) = &g.long {
                                for u in l {
                                    fnv(&mut h, &u.to_le_bytes());
                                }
                            }
                        }
                        // look every entry up under the name a caller would type after seeing the listing (units decoded
                        // lossily); the outcome goes into the per-case hash that is compared across feature builds
                        if let Some(fs) = &self.fs {
                            let root = fs.root_dir();
                            let dir = if sub { root.open_dir("SUB").ok() } else { Some(root) };
                            if let Some(dir) = dir {
                                for g in got.iter().take(3) {
                                    // entries without a long name are looked up by their 8.3 name (bytes >= 0x80 spelled U+FFFD,
                                    // the documented decoding of the default OEM converter)
                                    let by_short: String = g.short.iter().map(|b| lfn::oem_decode(*b)).collect();
                                    let l16: Vec<u16> = match &g.long {
                                        Some(l) => l.clone(),
                                        None => by_short.encode_utf16().collect(),
                                    };
                                    {
                                        let l = &l16;
                                        let name = String::from_utf16_lossy(l);
                                        if !name.is_empty() && !name.contains('/') && name.len() <= 255 {
                                            let found = match catch_unwind(AssertUnwindSafe(|| dir.open_file(&name).is_ok() || dir.open_dir(&name).is_ok())) {
                                                Ok(f) => f as u8,
                                                Err(_) => {
                                                    lookup_panics.push(name.clone());
                                                    2
                                                }
                                            };
                                            fnv(&mut h, &[0xF0, found]);
                                        }
                                    }
                                }
                            }
                        }
                        if let Some(n) = lookup_panics.first() {
                            let p = LAST_PANIC.with(|p| p.borrow().clone());
                            self.viol(format!("C17/panic/lookup-of-a-listed-name/{}", panic_class(&p)), format!("case {id}: open of the listed name {:?} panicked: {p}", n.chars().take(30).collect::<String>()));
                        }
                        if let Err(why) = judge_listing(&area, &got) {
                            let class: String = why
                                .split(':')
                                .nth(1)
                                .unwrap_or(&why)
                                .trim()
                                .chars()
                                .filter(|c| !c.is_ascii_digit())
                                .map(|c| if c.is_ascii_alphanumeric() { c } else { '-' })
                                .take(60)
                                .collect();
                            self.viol(format!("C17/wrong-listing/{class}"), format!("case {id}: {why}"));
                        }
                    }
                }
            }
        }
        self.hash ^= h;
    }

    fn restore(&mut self) {
        let mut d = self.data.borrow_mut();
        d.copy_from_slice(&self.pristine);
    }
}

fn c17(args: &[String]) {
    let img = std::fs::read(&args[0]).expect("image");
    let sub = args[1] == "sub";
    let thorough = args[2] == "thorough";
    let subset = args[2] == "trace-subset";
    // `oem-alt`: the volume is mounted with the injective test code page (see DrvCp); the families that put bytes >= 0x80
    // into judged 8.3 names (4, 8, 9), the special cases and the short slot-kind sequences are run once more under it
    let oem_alt = args[2] == "oem-alt";
    lfn::OEM_ALT.store(oem_alt, std::sync::atomic::Ordering::Relaxed);
    let nthreads: usize = std::thread::available_parallelism().map_or(4, |n| n.get());
    // work list: (family tag, k, orders, attrs, count)
    let mut fams: Vec<(usize, &'static [u8], &'static [u8], u64)> = if oem_alt {
        vec![]
    } else if subset { vec![(1, &ORDERS_FULL, &ATTRS, 0)] } else { vec![(1, &ORDERS_FULL, &ATTRS, 0), (2, &ORDERS_FULL, &ATTRS, 0)] };
    if thorough {
        fams.push((3, &ORDERS_SMALL, &ATTRS[..1], 0));
    }
    for f in &mut fams {
        f.3 = family1_count(f.0, f.1, f.2);
    }
    let total: u64 = fams.iter().map(|f| f.3).sum();
    let results: Vec<(u64, u64, BTreeMap<String, (String, u64)>)> = std::thread::scope(|s| {
        let mut hs = Vec::new();
        for t in 0..nthreads {
            let img = &img;
            let fams = &fams;
            hs.push(s.spawn(move || {
                std::panic::set_hook(Box::new(|info| {
                    let msg = if let Some(s) = info.payload().downcast_ref::<&str>() {
                        (*s).to_string()
                    } else if let Some(s) = info.payload().downcast_ref::<String>() {
                        s.clone()
                    } else {
                        "<panic>".to_string()
                    };
                    let loc = info.location().map(|l| format!("{}:{}", l.file(), l.line())).unwrap_or_default();
                    LAST_PANIC.with(|p| *p.borrow_mut() = format!("{msg} @ {loc}"));
                }));
                let mut w = Worker::new(img, sub);
                // family 1: strided partition of the case index space
                for (k, orders, attrs, count) in fams.iter() {
                    let mut idx = t as u64;
                    while idx < *count {
                        let (slots, at_end) = family1_case(*k, orders, attrs, idx);
                        w.run_case(&format!("f1/k{k}/{idx}"), &slots, at_end);
                        idx += nthreads as u64;
                    }
                }
                if t == 0 {
                    for (name, slots) in special_cases() {
                        w.run_case(&format!("special/{name}"), &slots, false);
                        w.run_case(&format!("special-at-end/{name}"), &slots, true);
                    }
                }
                // family 6: every sequence of slot kinds (reader state machine)
                for len in 1..=(if thorough { 7usize } else if subset || oem_alt { 3 } else { 5 }) {
                    let count = family6_count(len);
                    let mut idx = t as u64;
                    while idx < count {
                        w.run_case(&format!("kinds/{len}/{idx}"), &family6_case(len, idx), false);
                        idx += nthreads as u64;
                    }
                }
                // family 4: every value of every byte of the 3 base slots
                let base = byte_base();
                let mut j = t;
                while j < 3 * 32 * 256 {
                    let (pos, val) = (j / 256, (j % 256) as u8);
                    let mut s = base.clone();
                    s[pos / 32][pos % 32] = val;
                    w.run_case(&format!("byte/{pos}={val:#04x}"), &s, false);
                    j += nthreads;
                }
                // family 7: every 16-bit value in all five date/time words of a short entry x boundary values of the 10 ms byte
                // (field combinations that a single-byte sweep cannot reach)
                if !subset && !oem_alt {
                    let mut tw = t as u32;
                    while tw < 65536 {
                        for hi in [0u8, 99, 100, 199, 200, 255] {
                            let mut s = mk_sfn_slot(&SFN_A, 0x20, 0, 0x10);
                            s[13] = hi;
                            for o in [14usize, 16, 18, 22, 24] {
                                s[o..o + 2].copy_from_slice(&(tw as u16).to_le_bytes());
                            }
                            w.run_case(&format!("times/{tw:#06x}/{hi}"), &[s], false);
                        }
                        tw += nthreads as u32;
                    }
                }
                // family 8: every value of every name byte of the short entry, the 2-slot run in front of it carrying the checksum
                // of THAT name (valid runs in front of unusual short names: 0x05 lead byte, bytes >= 0x80, blanks)
                if !subset {
                    let units: Vec<u16> = (0..20).map(|i| 0x61 + i as u16).collect();
                    let mut j = t;
                    while j < 11 * 256 {
                        let (pos, val) = (j / 256, (j % 256) as u8);
                        let mut sfn = SFN_A;
                        sfn[pos] = val;
                        let mut s = mk_lfn_run(&units, &sfn);
                        s.push(mk_sfn_slot(&sfn, 0x20, 0, 0x1234));
                        w.run_case(&format!("sfnsweep/{pos}={val:#04x}"), &s, false);
                        j += nthreads;
                    }
                }
                // family 9: every value of every byte of a short entry that has NO long-name run in front of it (file_name() takes
                // the 8.3 path), under every case-flag combination, for a name with extension, one without, a full 8.3 name
                // with escaped 0xE5 lead byte
                if !subset {
                    for (bi, base) in [SFN_A, *b"DOCS       ", *b"\x05BCDEFGHIJK", *b"        TXT", *b"           ", *b"A       B  "].iter().enumerate() {
                        for nt in [0u8, 0x08, 0x10, 0x18] {
                            let mut j = t;
                            while j < 32 * 256 {
                                let (pos, val) = (j / 256, (j % 256) as u8);
                                let mut s = mk_sfn_slot(base, 0x20, 0, 0x1234);
                                s[12] = nt;
                                s[pos] = val;
                                w.run_case(&format!("sfnonly/{bi}/{nt:#04x}/{pos}={val:#04x}"), &[s], false);
                                j += nthreads;
                            }
                        }
                    }
                }
                if thorough {
                    // family 5: all pairs of byte positions on 16 boundary values
                    let mut pair = t;
                    let npos = 96;
                    let npairs = npos * (npos - 1) / 2;
                    while pair < npairs {
                        // unrank pair -> (a, b)
                        let mut a = 0;
                        let mut rem = pair;
                        while rem >= npos - 1 - a {
                            rem -= npos - 1 - a;
                            a += 1;
                        }
                        let b = a + 1 + rem;
                        for va in BYTE_BOUNDARY {
                            for vb in BYTE_BOUNDARY {
                                let mut s = base.clone();
                                s[a / 32][a % 32] = va;
                                s[b / 32][b % 32] = vb;
                                w.run_case(&format!("bytes/{a}={va:#04x},{b}={vb:#04x}"), &s, false);
                            }
                        }
                        pair += nthreads;
                    }
                }
                w.restore();
                (w.evals, w.hash, w.viols)
            }));
        }
        hs.into_iter().map(|h| h.join().expect("worker")).collect()
    });
    let mut evals = 0;
    let mut hash = 0;
    let mut viols: BTreeMap<String, (String, u64)> = BTreeMap::new();
    for (e, h, v) in results {
        evals += e;
        hash ^= h;
        for (sig, (msg, n)) in v {
            viols.entry(sig).or_insert((msg, 0)).1 += n;
        }
    }
    println!("STAT evaluations={evals} family1_cases={total} hash={hash:016x}");
    for (sig, (msg, n)) in viols {
        println!("VIOL {sig}\t{n}\t{msg}");
    }
}

// ------------------------------------------------------------------------------------------ C19

#[derive(Clone, Debug)]
enum NOp {
    Create(usize),
    CreateDir(usize),
    Open(usize, u8),
    Rename(usize, usize),
    Remove(usize),
    /// operations on / inside the directory the prologue made (it holds one deleted entry)
    RemovePre,
    CreateIn(usize),
    RemoveIn(usize),
    List,
}

fn names() -> Vec<String> {
    let mut v: Vec<String> = Vec::new();
    for len in [1usize, 12, 13, 14, 26, 247, 248, 254, 255] {
        v.push((0..len).map(|i| (b'a' + (i % 26) as u8) as char).collect());
    }
    v.push("é".into());
    v.push("É".into());
    v.push("straße".into());
    v.push("STRASSE".into());
    v.push("ǆ".into());
    v.push("ǅ".into());
    v.push(format!("{}é", "z".repeat(254 - 1)));
    // 16.. : ASCII names the long-name writer could be tempted to "normalise" (trailing dot / space), punctuation
    v.push("notes.".into());
    v.push("draft copy ".into());
    v.push("x{y};[z]=+,.t~1".into());
    // 19, 20: longer than any legal name (every build has to refuse them the same way)
    v.push("q".repeat(256));
    v.push("q".repeat(261));
    v
}

/// names for the match-relation matrix: every name of `names()` plus ASCII punctuation partners that a sloppy ASCII
/// fold identifies (`{`/`[`, backquote/`@`, `~`/`^`), digits, and non-ASCII characters with and without case partners,
/// with multi-character upper-case expansions, and from the Latin-1 hole (÷ ×)
fn matrix_names() -> Vec<String> {
    let mut v: Vec<String> = names().into_iter().filter(|n| n.encode_utf16().count() <= 255).collect();
    for s in [
        "x{y", "x[y", "a`b", "a@b", "t~1", "t^1", "0129.7z", "A", "b.TXT", "B.txt", "š", "Š", "s", "÷", "×", "я", "Я", "ſ", "S", "ß", "SS", "ss", "ﬁle", "file", "FILE", "ı",
        "I", "i", "İ", "ά", "Ά", "ǰ", "J̌", "ÿ", "Ÿ", "µ", "Μ", "é.é", "É.É", "ẞ",
    ] {
        v.push(s.to_string());
    }
    // every BMP scalar whose upper-case form is longer than one scalar: the scalar, the expansion, the expansion in lower case
    for cp in 0u32..=0xFFFF {
        if let Some(ch) = char::from_u32(cp) {
            let up: String = ch.to_uppercase().collect();
            if up.chars().count() > 1 {
                for n in [ch.to_string(), up.clone(), up.to_lowercase()] {
                    if !v.contains(&n) {
                        v.push(n);
                    }
                }
            }
        }
    }
    v
}

fn c19m(args: &[String]) {
    let img: Rc<Vec<u8>> = Rc::new(std::fs::read(&args[0]).expect("image"));
    let names = matrix_names();
    let unicode = cfg!(feature = "has_unicode");
    let fold = |s: &str| -> String {
        if unicode {
            s.chars().flat_map(char::to_uppercase).collect()
        } else {
            s.chars().map(|c| c.to_ascii_uppercase()).collect()
        }
    };
    let mut queries: Vec<String> = Vec::new();
    for n in &names {
        for q in [n.clone(), n.to_uppercase(), n.to_lowercase()] {
            if !queries.contains(&q) {
                queries.push(q);
            }
        }
    }
    std::panic::set_hook(Box::new(|_| {}));
    let mut pairs = 0u64;
    let mut matches = 0u64;
    let mut viols: BTreeMap<String, (String, u64)> = BTreeMap::new();
    for stored in &names {
        let overlay = Rc::new(RefCell::new(BTreeMap::new()));
        let r = catch_unwind(AssertUnwindSafe(|| -> Result<Vec<(String, bool)>, String> {
            let fs: FileSystem<CowDisk> = FileSystem::new(CowDisk { base: img.clone(), overlay: overlay.clone(), pos: 0 }, FsOptions::new()).map_err(|e| format!("mount: {e:?}"))?;
            let root = fs.root_dir();
            root.create_file(stored).map_err(|e| format!("create: {e:?}"))?;
            let alias: String = root.iter().filter_map(Result::ok).map(|e| String::from_utf8_lossy(e.short_file_name_as_bytes()).into_owned()).next().unwrap_or_default();
            let mut out = Vec::new();
            for q in &queries {
                if q.encode_utf16().count() > 255 {
                    continue;
                }
                let found = root.open_file(q).is_ok();
                // the query may also name the entry by its generated 8.3 alias
                let expect = fold(stored) == fold(q) || q.to_ascii_uppercase() == alias.to_ascii_uppercase();
                if found != expect {
                    out.push((q.clone(), found));
                }
                out.push((String::new(), found));
            }
            Ok(out)
        }));
        match r {
            Err(_) => {
                viols.entry("C19/match-relation/panic".into()).or_insert((format!("stored {stored:?}"), 0)).1 += 1;
            }
            Ok(Err(e)) => {
                viols.entry("C19/match-relation/setup-failed".into()).or_insert((format!("stored {stored:?}: {e}"), 0)).1 += 1;
            }
            Ok(Ok(out)) => {
                for (q, found) in out {
                    if q.is_empty() {
                        pairs += 1;
                        matches += found as u64;
                    } else {
                        let sig = if found { "C19/match-relation/matched-a-different-name" } else { "C19/match-relation/missed-an-equal-name" };
                        viols.entry(sig.into()).or_insert((format!("stored {stored:?}, looked up {q:?} (unicode folding {})", if unicode { "on" } else { "off" }), 0)).1 += 1;
                    }
                }
            }
        }
    }
    println!("STAT evaluations={pairs} matches={matches} hash={matches:016x}");
    for (sig, (msg, n)) in viols {
        println!("VIOL {sig}\t{n}\t{msg}");
    }
}

/// name of the directory every history starts with
const PRE: &str = "used dir";

fn variant(s: &str, how: u8) -> String {
    match how {
        0 => s.to_string(),
        1 => s.to_uppercase(),
        _ => s.to_lowercase(),
    }
}

fn run_history(img: &Rc<Vec<u8>>, hist: &[NOp], names: &[String], trace: &mut Vec<u8>) {
    let overlay = Rc::new(RefCell::new(BTreeMap::new()));
    let r = catch_unwind(AssertUnwindSafe(|| {
        let fs: FileSystem<CowDisk> =
            FileSystem::new(CowDisk { base: img.clone(), overlay: overlay.clone(), pos: 0 }, FsOptions::new()).expect("mount");
        let mut t: Vec<u8> = Vec::new();
        {
            let root = fs.root_dir();
            // prologue (not part of the history): a directory that has been used (one entry created and removed again)
            root.create_dir(PRE).expect("prologue");
            root.create_file(&format!("{PRE}/gone.tmp")).expect("prologue");
            root.remove(&format!("{PRE}/gone.tmp")).expect("prologue");
            for op in hist {
                let res: String = match op {
                    NOp::Create(n) => format!("{:?}", root.create_file(&names[*n]).map(|_| ())),
                    NOp::CreateDir(n) => format!("{:?}", root.create_dir(&names[*n]).map(|_| ())),
                    NOp::Open(n, how) => format!("{:?}", root.open_file(&variant(&names[*n], *how)).map(|_| ())),
                    NOp::Rename(a, b) => format!("{:?}", root.rename(&names[*a], &root, &names[*b])),
                    NOp::Remove(n) => format!("{:?}", root.remove(&names[*n])),
                    NOp::RemovePre => format!("{:?}", root.remove(PRE)),
                    NOp::CreateIn(n) => format!("{:?}", root.create_file(&format!("{PRE}/{}", names[*n])).map(|_| ())),
                    NOp::RemoveIn(n) => format!("{:?}", root.remove(&format!("{PRE}/{}", names[*n]))),
                    NOp::List => String::new(),
                };
                t.extend_from_slice(res.as_bytes());
                t.push(b';');
                // observation after every op: the listing (units, short bytes, sizes)
                for e in root.iter() {
                    match e {
                        Ok(e) => {
                            t.extend_from_slice(e.short_file_name_as_bytes());
                            t.push(b'|');
                            if let Some(l) = e.long_file_name_as_ucs2_units() {
                                for u in l {
                                    t.extend_from_slice(&u.to_le_bytes());
                                }
                            }
                            t.push(b'|');
                            t.extend_from_slice(&e.len().to_le_bytes());
                            t.push(e.attributes().bits());
                            // one level down: what the directories of the root contain
                            if e.is_dir() {
                                for c in e.to_dir().iter() {
                                    match c {
                                        Ok(c) => {
                                            t.push(b'>');
                                            t.extend_from_slice(c.short_file_name_as_bytes());
                                            t.push(b'|');
                                            if let Some(l) = c.long_file_name_as_ucs2_units() {
                                                for u in l {
                                                    t.extend_from_slice(&u.to_le_bytes());
                                                }
                                            }
                                            t.push(c.attributes().bits());
                                        }
                                        Err(c) => t.extend_from_slice(format!("ERR{c:?}").as_bytes()),
                                    }
                                }
                            }
                        }
                        Err(e) => t.extend_from_slice(format!("ERR{e:?}").as_bytes()),
                    }
                }
                t.push(b'\n');
            }
        }
        fs.unmount().ok();
        t
    }));
    match r {
        Ok(t) => trace.extend_from_slice(&t),
        Err(_) => trace.extend_from_slice(format!("PANIC {}", LAST_PANIC.with(|p| p.borrow().clone())).as_bytes()),
    }
    // image hash: the pages that differ from the base, in page order
    let mut h = 0xcbf2_9ce4_8422_2325u64;
    for (pno, p) in overlay.borrow().iter() {
        let s = (*pno * 512) as usize;
        let e = (s + 512).min(img.len());
        if img[s..e] != p[..e - s] {
            fnv(&mut h, &pno.to_le_bytes());
            fnv(&mut h, &p[..]);
        }
    }
    trace.extend_from_slice(format!("IMG {h:016x}\n").as_bytes());
}

fn c19(args: &[String]) {
    let img = std::fs::read(&args[0]).expect("image");
    let thorough = args[1] == "thorough";
    let out = &args[2];
    let names = names();
    let nn = names.len();
    // alphabet
    let mut alpha: Vec<NOp> = Vec::new();
    for n in 0..nn {
        alpha.push(NOp::Create(n));
    }
    alpha.push(NOp::CreateDir(1));
    for n in [0usize, 2, 5, 8, 9, 11, 13, 15, 16, 17] {
        alpha.push(NOp::Open(n, 1));
        alpha.push(NOp::Open(n, 2));
    }
    for (a, b) in [(0usize, 8usize), (8, 5), (9, 10), (11, 12), (2, 3), (15, 8), (0, 16)] {
        alpha.push(NOp::Rename(a, b));
    }
    for n in [0usize, 5, 8, 9, 11, 15] {
        alpha.push(NOp::Remove(n));
    }
    alpha.push(NOp::RemovePre);
    alpha.push(NOp::CreateIn(0));
    alpha.push(NOp::RemoveIn(0));
    let depth = if thorough { 4 } else { 3 };
    let nthreads: usize = std::thread::available_parallelism().map_or(4, |n| n.get());
    let mut total: u64 = (alpha.len() as u64).pow(depth as u32);
    if let Ok(l) = std::env::var("FEATDRV_LIMIT") {
        total = total.min(l.parse().unwrap_or(total));
    }
    let chunks: Vec<Vec<u8>> = std::thread::scope(|s| {
        let mut hs = Vec::new();
        for t in 0..nthreads {
            let (img, alpha, names) = (&img, &alpha, &names);
            hs.push(s.spawn(move || {
                let img: Rc<Vec<u8>> = Rc::new(img.clone());
                let img = &img;
                std::panic::set_hook(Box::new(|info| {
                    let msg = if let Some(s) = info.payload().downcast_ref::<&str>() {
                        (*s).to_string()
                    } else if let Some(s) = info.payload().downcast_ref::<String>() {
                        s.clone()
                    } else {
                        "<panic>".to_string()
                    };
                    LAST_PANIC.with(|p| *p.borrow_mut() = msg);
                }));
                // contiguous block of history indices so that the concatenated trace is in history order
                let lo = total * t as u64 / nthreads as u64;
                let hi = total * (t as u64 + 1) / nthreads as u64;
                let mut trace = Vec::new();
                for idx in lo..hi {
                    let mut x = idx;
                    let mut hist = Vec::with_capacity(depth);
                    for _ in 0..depth {
                        hist.push(alpha[(x % alpha.len() as u64) as usize].clone());
                        x /= alpha.len() as u64;
                    }
                    // one line per history: hash of the per-step trace (results, listings) and the image hash
                    let mut tr = Vec::new();
                    run_history(img, &hist, names, &mut tr);
                    let mut h = 0xcbf2_9ce4_8422_2325u64;
                    fnv(&mut h, &tr);
                    // strings used as names by this history
                    let mut used: Vec<String> = Vec::new();
                    for op in &hist {
                        match op {
                            NOp::Create(n) | NOp::CreateDir(n) | NOp::Remove(n) | NOp::CreateIn(n) | NOp::RemoveIn(n) => used.push(names[*n].clone()),
                            NOp::RemovePre => {}
                            NOp::Open(n, how) => {
                                used.push(names[*n].clone());
                                used.push(variant(&names[*n], *how));
                            }
                            NOp::Rename(a, b) => {
                                used.push(names[*a].clone());
                                used.push(names[*b].clone());
                            }
                            NOp::List => {}
                        }
                    }
                    let ascii_only = used.iter().all(|s| s.is_ascii());
                    let fold_u = |s: &str| s.chars().flat_map(char::to_uppercase).collect::<String>();
                    let fold_a = |s: &str| s.chars().map(|c| c.to_ascii_uppercase()).collect::<String>();
                    // two different names that only full Unicode folding identifies: the one documented difference
                    let mut case_pair = false;
                    for (i, a) in used.iter().enumerate() {
                        for b in used.iter().skip(i + 1) {
                            if a != b && fold_u(a) == fold_u(b) && fold_a(a) != fold_a(b) {
                                case_pair = true;
                            }
                        }
                    }
                    let class = if ascii_only { "ascii" } else if case_pair { "nonascii-case" } else { "nonascii-nocase" };
                    let panicked = tr.windows(5).any(|w| w == b"PANIC");
                    trace.extend_from_slice(format!("{idx} {h:016x} {class} {}\n", if panicked { "PANIC" } else { "ok" }).as_bytes());
                }
                trace
            }));
        }
        hs.into_iter().map(|h| h.join().expect("worker")).collect()
    });
    let mut all = Vec::new();
    for c in chunks {
        all.extend_from_slice(&c);
    }
    std::fs::write(out, &all).expect("write trace");
    println!("STAT histories={total} alphabet={} depth={depth}", alpha.len());
}

struct SinkLogger;
impl log::Log for SinkLogger {
    fn enabled(&self, _: &log::Metadata) -> bool {
        true
    }
    fn log(&self, r: &log::Record) {
        let s = format!("{}", r.args());
        std::hint::black_box(s);
    }
    fn flush(&self) {}
}
static SINK: SinkLogger = SinkLogger;

fn main() {
    // the library's log macros are compiled in (default log level): evaluate their arguments like a real logger would
    let _ = log::set_logger(&SINK);
    // level: everything up to `debug` (error!/warn!/info!/debug! arguments are evaluated) in the big enumerations; the
    // `trace-subset` pass of C17 re-runs the small case families with `trace` as well (formatting every trace record of
    // every directory slot is six times slower than the enumeration itself)
    let trace = std::env::args().any(|a| a == "trace-subset");
    log::set_max_level(match std::env::var("FEATDRV_LOG").as_deref() {
        Ok("off") => log::LevelFilter::Off,
        Ok("trace") => log::LevelFilter::Trace,
        _ if trace => log::LevelFilter::Trace,
        _ => log::LevelFilter::Debug,
    });
    let args: Vec<String> = std::env::args().collect();
    match args.get(1).map(String::as_str) {
        Some("c17") => c17(&args[2..]),
        Some("c19") => c19(&args[2..]),
        Some("c19m") => c19m(&args[2..]),
        _ => {
            eprintln!("usage: featdrv c17 <image> <root|sub> <tier> | featdrv c19 <image> <tier> <out>");
            std::process::exit(2);
        }
    }
}
