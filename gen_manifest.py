#!/usr/bin/env python3
"""Generates MANIFEST.json from the table below (single source of truth for the interface)."""
import json, subprocess

CHECKS = {
 # id: (engine, level, technique, text, note, design_ref)
 "C01": ("explorer", "model_checking",
         "explicit-state BFS over operation histories of the real crate, reference tree model + independent decoder",
         "every history up to the stated depth over a collision-forcing namespace alphabet on FAT12/16/32 tiny volumes: results equal the in-memory tree model, raw image decodes to the model tree after every call, failed calls change nothing",
         "bounded by depth/alphabet/configurations listed in the evidence; trusted: independent decoder, determinism of the library (re-execution sample)",
         "DESIGN.md §4 C01"),
 "C02": ("explorer", "model_checking",
         "explicit-state BFS over seek/read/write/truncate/flush/reopen histories on two handles, byte-vector reference model + independent decoder",
         "every history up to the stated depth over boundary offsets/lengths (0, 1, cs-1, cs, cs+1, 2cs+1, 3cs) on FAT12/16/32, exact and short-transferring devices, several cluster sizes: every returned count/position/byte equals the model; contents re-read through a fresh handle, the independent decode and the device bytes at extents() equal the model",
         "bounded by depth/alphabet/configurations listed in the evidence; trusted: independent decoder",
         "DESIGN.md §4 C02"),
 "C03": ("explorer", "model_checking",
         "explicit-state BFS, independent FAT decoder's structural-invariant report evaluated on the raw image after every call",
         "after every call of every history up to the stated depth (namespace + file I/O + stats + remount, failing calls included, tiny volumes / full roots / short-transferring device / geometry grid) the raw image satisfies the FAT invariants I1-I6 (chains, ownership, sizes, dot entries, end marker, long-name runs, duplicates)",
         "files with a live modified handle are judged with the handle's first cluster and strictly after flushing (deferred metadata, DESIGN §3.2); trusted: independent decoder",
         "DESIGN.md §4 C03"),
 "C04": ("explorer", "model_checking",
         "explicit-state BFS with a remount + independent-decode observation suffix at every node",
         "at every node of the exploration: after dropping handles, the independent decode (also of the not-unmounted image), a second mount and the device bytes at extents() all equal the session's view (the reference model kept in lockstep with the results)",
         "bounded by depth/alphabet/configurations listed in the evidence; trusted: independent decoder",
         "DESIGN.md §4 C04"),
 "C05": ("explorer", "model_checking",
         "explicit-state BFS over allocate/free histories (fill-to-full, delete-all cycles), free count from the independent FAT decode",
         "after every call: stats() equals the free entries the independent decoder counts; removing gives back the whole chain; NotEnoughSpace only when the pre-state really has no room; fs-info after unmount carries the count and an in-range hint; delete-all restores the initial capacity; FAT32 fs-info count/hint variants",
         "bounded by depth/alphabet/configurations listed in the evidence",
         "DESIGN.md §4 C05"),
 "C12": ("explorer", "model_checking",
         "explicit-state BFS; raw status byte and a mount of the abandoned image examined at every call boundary, crash-point enumeration over the device writes inside every call that starts on a clean status byte, single-fault enumeration with follow-up calls",
         "at every call boundary of every history (status byte at mount 0..3, extended boot signature 0x29/0x28/0x00, FAT12/16 offset 0x25, FAT32 0x41): a structural change implies the dirty bit is set and an abandoned image mounts as dirty; mount-time bits are never cleared; unmount/drop restores the mount-time byte; inside a call no device write changes the decoded volume while the status byte still says clean; after one failed device call and a later successful call (modifying, retried or quiet) the same holds",
         "change detection = reference model (successful mutating calls) OR independent before/after decode; reserved status bits outside {0..3} not explored",
         "DESIGN.md §4 C12"),
 "C13": ("explorer", "model_checking",
         "explicit-state BFS over a read-only alphabet with a whole-session device write log",
         "every history of non-mutating calls up to the stated depth on populated FAT12/16/32 volumes (clean/dirty at mount, fs-info count exact/missing/too large): the device log of the whole session incl. drop/unmount contains no write and the image is byte-identical; only exception: fs-info sector after stats on FAT32 without a usable count",
         "access-date updating off; populated volume made by the library itself (builder-made variant: see C08)",
         "DESIGN.md §4 C13"),
 "C09": ("fault-enumerator", "fault_enumeration",
         "exhaustive single-fault enumeration on the real crate: every device call (read/write/seek/flush) of the last operation of every explored history fails in turn, with a device-call budget",
         "for every operation kind on FAT12/16/32 (incl. mount, unmount, format_volume, allocation wrap-around) and every position k of its device calls: a fault outside a destructor makes the call return Io carrying the injected error id; never Ok, another kind, a panic or a budget overrun",
         "single fault per execution; whole-FAT scans (>3000 calls) visited at a stride in the middle (reported in evidence); destructor calls identified by the drop_depth hook",
         "DESIGN.md §4 C09"),
 "C10": ("explorer", "model_checking",
         "explicit-state BFS on builder-made volumes with 1-3 FAT copies, mirroring on/off with every active copy, pre-set reserved nibbles; byte comparison of FAT copies after every call",
         "after every call of every history: mirrored copies byte-identical; with mirroring off no write reaches an inactive copy (device log) and inactive copies keep their bytes; entries 0/1, padding entries and FAT32 top nibbles keep their initial values (volumes formatted by the library with other media bytes: entry 0 equals the boot sector's media byte); no chain leaves the volume",
         "bounded by depth/alphabet/configurations listed in the evidence; volumes made by the independent builder, plus library-formatted ones",
         "DESIGN.md §4 C10"),
 "C11": ("explorer", "model_checking",
         "explicit-state BFS with a device-log monitor: every write of the last call classified against the independent decoder's region/ownership map of the pre-state",
         "every device write of every call of every history lies in the status byte, fs-info, a writable FAT copy, the fixed root, clusters owned by the operation's may-modify set or clusters free before the call; never boot code, backup boot, other reserved sectors, slack, beyond the declared end, foreign or bad clusters; sentinel tail intact; exact and short-transferring devices; reserved areas of 4/32 sectors",
         "may-modify set derived from the reference model (target file, directories on the path, parent of a handle's entry)",
         "DESIGN.md §4 C11"),
 "C14": ("crash-enumerator", "fault_enumeration",
         "exhaustive crash-point enumeration over the device write log of every explored history; each crash image remounted with the crate and decoded independently",
         "for every explored history with a durability point (successful flush/drop of f, f not modified afterwards) and every later cut: every prefix of the device writes, loss of everything after the last device flush (thorough: bounded subsets of unflushed writes) still yields f with exactly the flushed content; single storage faults in write / flush / truncate of f followed by retry or carry-on and flush",
         "whole-call write granularity (no torn sectors); device honours flush as a barrier",
         "DESIGN.md §4 C14"),
 "C06": ("input-enumerator", "exploration",
         "bounded-exhaustive enumeration of the format-option grid x threshold-adjacent sizes on the real crate (boot-sector hook + full format on a sparse device), independent geometry parser / decoder as oracle; thorough: every sector count of the 32-bit range for 4 option records",
         "for every option record of the declared grid and every size of the size set: no panic; rejection only with InvalidInput; an accepted request yields a coherent geometry with the requested width / cluster size, a FAT that addresses every cluster, regions inside the declared size, and (full mode) an image that decodes clean, has identical FAT copies and backup boot sector, correct fs-info, an empty root apart from the label, mounts, and reports all clusters free; default options succeed for every size >= 42 sectors in the size set (thorough: all 2^32 sizes)",
         "option values off the declared grid not covered",
         "DESIGN.md §4 C06"),
 "C07": ("input-enumerator", "exploration",
         "bounded-exhaustive enumeration of boot-sector and fs-info contents (every value of 8/16-bit fields, boundary sets for 32-bit fields, all field pairs, geometry triples, truncated devices) on the real crate, independent coherence verdict and geometry parse as oracle",
         "for every mutated image (5 base images, strict and non-strict mount): mount + fat_type + cluster_size + stats + first directory entry never panic, overflow or exceed the device-call budget; an accepted volume is coherent by the independent verdict and its width / cluster size / cluster count equal the independent parse",
         "one-directional as stated (accepted => coherent); >2 simultaneous non-geometry field corruptions not covered",
         "DESIGN.md §4 C07"),
 "C08": ("explorer", "model_checking",
         "product grid of builder-made foreign volumes as initial states, depth-1 exploration (1 read session + 10 single mutations) on the real crate, ground truth of the independent builder + byte-level diff oracle",
         "for every volume of the grid (FAT width x sector/cluster size x 1-3 FAT copies x mirroring/active copy x reserved nibble x end-of-chain value x chain layout x dirty/clean; population using every slot-level freedom): everything the library lists and reads equals the builder's ground truth; each of 10 mutations leaves every byte outside the target's slots / free slots / its FAT entries and clusters / free clusters / status byte / fs-info unchanged, creates no new structural finding and keeps every other file intact",
         "grid declared in the evidence; builder and decoder are anchored to each other on every image",
         "DESIGN.md §4 C08"),
 "C15": ("input-enumerator", "exploration",
         "bounded-exhaustive enumeration of candidate names (every BMP scalar in 2-4 positions, astral samples, every byte length 0..300, dots/spaces family, all case-mapped scalars) through create_file / create_dir / rename on fresh volumes",
         "each candidate is accepted exactly when it is 1..255 bytes of the documented character set (independent statement); rejection has the right error kind, no panic and no side effect on the image or the free count; an accepted name is listed unit for unit, found under its case variants (by full Unicode folding) and its alias, not found under near misses, and removable",
         "folding = Rust's char::to_uppercase; '/' excluded (path separator)",
         "DESIGN.md §4 C15"),
 "C16": ("input-enumerator", "exploration",
         "bounded-exhaustive enumeration of names over a small alphabet and of colliding directory populations (with removals) on the real crate; raw short-name bytes and long-name checksums examined by the independent decoder",
         "every short name the library writes is legal 8.3 (upper case, no embedded/leading space, no dot), unique in its directory, and its checksum is in every long-name slot of its entry; creation terminates within a device-call budget however many entries collide on the 6-character and 2-character+hash forms",
         "populations up to N=40 (quick) / 400 (thorough)",
         "DESIGN.md §4 C16"),
 "C17": ("input-enumerator", "exploration",
         "bounded-exhaustive enumeration of directory slot contents (full product of order/checksum/attribute/text choices for runs of <=2 (thorough 3) long-name slots x 8 terminators, maximal runs, abandoned runs, every value of every byte) in two feature builds of the real crate, judged by the independent long-name state machine",
         "iteration and every accessor terminate without panic; at most one entry per short slot; names never exceed 255 units; a broken run yields no long name, a valid one exactly its text (ambiguous encodings: either reading); dynamic-buffer and fixed-buffer builds return identical entries",
         "slot soup beyond 3-slot runs / byte pairs not covered",
         "DESIGN.md §4 C17"),
 "C18": ("explorer", "model_checking",
         "full-domain enumeration of dates/times through set_*/flush/re-list with an independent DOS packing + explicit-state exploration of the stamping rules under a counter clock",
         "every date 1980-01-01..2107-12-31 accepted by Date::new and every time of day (quick: all seconds x 4 millisecond values + all fine-resolution values per hour; thorough: all 8.64M ten-millisecond steps) round-trips at 10 ms / 2 s / 1 day resolution and is packed as the specification says; in every explored history every file timestamp on disk is an instant issued by the clock during the operation the rules name (creation, write > 0 bytes, read with the option on) or the explicitly set instant; renames and operations on other entries change nothing",
         "directory entries: only creation stamp checked strictly",
         "DESIGN.md §4 C18"),
 "C19": ("feature-driver", "model_checking",
         "exhaustive enumeration of operation histories over a long-name alphabet on three feature builds of the real crate; per-history trace (results, listings after every step, image hash) compared pairwise",
         "every history up to depth 3 (thorough 4) over 45 operations on names of 1..255 units: alloc and fixed-buffer builds give identical traces and images; the build without `unicode` differs only on histories that use two names differing solely by non-ASCII case",
         "no_std builds without std not covered",
         "DESIGN.md §4 C19"),
 "C20": ("explorer", "model_checking",
         "explicit-state BFS on sparse procedural FAT32 volumes (4 GiB .. 2 TiB, up to the FAT32 cluster limit) with next-free hints around the last cluster; reference model, independent decoder with 128-bit geometry, device-log monitor",
         "on every volume shape / free set / hint: data is written to and read from the offsets the independent geometry assigns, extents() equal them, allocation reaches the last cluster and wraps around to the beginning, nothing is addressed beyond the declared end, all structural invariants hold on the touched region",
         "volumes are sparse (only addressed offsets exist); whole-FAT scans avoided by keeping >= 6 clusters free",
         "DESIGN.md §4 C20"),
}

NOT_YET = {}

def main():
    props = [json.loads(l) for l in open('/verif/properties.jsonl')]
    ids = [p['id'] for p in props]
    hooks_commits = subprocess.run(['git','-C','/repo','log','--format=%H %s'],capture_output=True,text=True).stdout.splitlines()
    hook_shas = [l.split()[0] for l in hooks_commits if 'verif_hooks' in l]
    m = {
      "version": 1,
      "setup_cmd": "./check --setup",
      "hooks": {
        "guard": "verif_hooks",
        "enable": "cargo feature: harness depends on fatfs = { path = \"/repo\", default-features = false, features = [\"std\",\"alloc\",\"lfn\",\"unicode\",\"verif_hooks\"] }",
        "baseline_off_cmd": "/verif/selftest/repo_suite.sh /repo",
        "source_commits": hook_shas,
        "add_only": True
      },
      "engines": [
        {"name": "input-enumerator", "path": "mc/fatmc/src/{c06,c07,c15,c16,c17}.rs", "serves_properties": ["C06","C07","C15","C16","C17"], "kind_free_text": "bounded-exhaustive enumeration of an input domain (format options x sizes, boot-sector bytes, names, directory slot contents), every case executed on the real crate and judged by an independent parser / decoder"},
        {"name": "feature-driver", "path": "mc/featdrv/main.rs", "serves_properties": ["C17","C19"], "kind_free_text": "one driver source compiled against three fatfs feature sets; exhaustive enumeration of cases / histories inside each build, traces compared by fatmc"},
        {"name": "fault-enumerator", "path": "mc/fatmc/src/c09.rs", "serves_properties": ["C09"], "kind_free_text": "per explored history: N re-executions of the real crate, each failing one device call"},
        {"name": "crash-enumerator", "path": "mc/fatmc/src/c14.rs", "serves_properties": ["C14"], "kind_free_text": "per explored history: crash images rebuilt from the device write log (prefixes, flush-epoch loss, subsets), remounted and decoded"},
        {"name": "explorer", "path": "mc/harness/src/explore.rs", "serves_properties": [i for i,c in CHECKS.items() if c[0]=="explorer"],
         "kind_free_text": "hand-rolled explicit-state model checker: level-synchronous BFS over operation histories, each node re-executed on the real fatfs crate over an in-memory device; oracle = reference model + independent FAT decoder + device log monitor"},
      ],
      "checks": [],
      "not_applicable": [],
      "notes": "All checks: ./check <id> quick|thorough; exit 0 held / known findings only, 1 violation, 2 machinery failure. Known findings: known_findings.json."
    }
    for i in ids:
        if i in CHECKS:
            eng, level, tech, text, note, ref = CHECKS[i]
            m["checks"].append({
              "property_id": i,
              "quick_cmd": f"./check {i} quick",
              "thorough_cmd": f"./check {i} thorough",
              "evidence_file": f"/verif/evidence/{i}.json",
              "replay_cmd_template": f"./check {i} --replay {{path}}",
              "engine": eng,
              "level_claimed": {"category": level, "text": text, "design_ref": ref},
              "level_note": note,
              "technique": tech,
            })
        else:
            m["not_applicable"].append({"property_id": i, "reason": NOT_YET.get(i, "check not built yet in this round (planned: bounded exhaustive exploration, see DESIGN.md §4); not claimed until it exists")})
    json.dump(m, open('/verif/MANIFEST.json','w'), indent=1)
    print("checks:", [c["property_id"] for c in m["checks"]], "n/a:", len(m["not_applicable"]))

main()
