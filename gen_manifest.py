#!/usr/bin/env python3
"""Generates MANIFEST.json from the table below (single source of truth for the interface)."""
import json, subprocess

CHECKS = {
 # id: (engine, level, technique, text, note, design_ref)
 "C01": ("explorer", "model_checking",
         "explicit-state BFS over operation histories of the real crate, reference tree model + independent decoder",
         "every history up to the stated depth over a collision-forcing namespace alphabet on FAT12/16/32 tiny volumes: results equal the in-memory tree model, raw image decodes to the model tree after every call, failed calls change nothing",
         "bounded by depth/alphabet/configurations listed in the evidence; trusted: independent decoder, determinism of the library (re-execution sample)",
         "DESIGN.md §4 C01"),
 "C02": ("explorer", "model_checking",
         "explicit-state BFS over seek/read/write/truncate/flush/reopen histories on two handles, byte-vector reference model + independent decoder",
         "every history up to the stated depth over boundary offsets/lengths (0, 1, cs-1, cs, cs+1, 2cs+1, 3cs) on FAT12/16/32, exact and short-transferring devices, several cluster sizes: every returned count/position/byte equals the model; contents re-read through a fresh handle, the independent decode and the device bytes at extents() equal the model",
         "bounded by depth/alphabet/configurations listed in the evidence; trusted: independent decoder",
         "DESIGN.md §4 C02"),
 "C03": ("explorer", "model_checking",
         "explicit-state BFS, independent FAT decoder's structural-invariant report evaluated on the raw image after every call",
         "after every call of every history up to the stated depth (namespace + file I/O + stats + remount, failing calls included, tiny volumes / full roots / short-transferring device / geometry grid) the raw image satisfies the FAT invariants I1-I6 (chains, ownership, sizes, dot entries, end marker, long-name runs, duplicates)",
         "files with a live modified handle are judged with the handle's first cluster and strictly after flushing (deferred metadata, DESIGN §3.2); trusted: independent decoder",
         "DESIGN.md §4 C03"),
 "C04": ("explorer", "model_checking",
         "explicit-state BFS with a remount + independent-decode observation suffix at every node",
         "at every node of the exploration: after dropping handles, the independent decode (also of the not-unmounted image), a second mount and the device bytes at extents() all equal the session's view (the reference model kept in lockstep with the results)",
         "bounded by depth/alphabet/configurations listed in the evidence; trusted: independent decoder",
         "DESIGN.md §4 C04"),
 "C05": ("explorer", "model_checking",
         "explicit-state BFS over allocate/free histories (fill-to-full, delete-all cycles), free count from the independent FAT decode",
         "after every call: stats() equals the free entries the independent decoder counts; removing gives back the whole chain; NotEnoughSpace only when the pre-state really has no room; fs-info after unmount carries the count and an in-range hint; delete-all restores the initial capacity; FAT32 fs-info count/hint variants",
         "bounded by depth/alphabet/configurations listed in the evidence",
         "DESIGN.md §4 C05"),
 "C12": ("explorer", "model_checking",
         "explicit-state BFS; raw status byte and a mount of the abandoned image examined at every call boundary",
         "at every call boundary of every history (status byte at mount 0..3, FAT12/16 offset 0x25, FAT32 0x41): a structural change implies the dirty bit is set and an abandoned image mounts as dirty; mount-time bits are never cleared; unmount/drop restores the mount-time byte",
         "change detection = reference model (successful mutating calls) OR independent before/after decode; reserved status bits outside {0..3} not explored",
         "DESIGN.md §4 C12"),
 "C13": ("explorer", "model_checking",
         "explicit-state BFS over a read-only alphabet with a whole-session device write log",
         "every history of non-mutating calls up to the stated depth on populated FAT12/16/32 volumes (clean/dirty at mount, fs-info count exact/missing/too large): the device log of the whole session incl. drop/unmount contains no write and the image is byte-identical; only exception: fs-info sector after stats on FAT32 without a usable count",
         "access-date updating off; populated volume made by the library itself (builder-made variant: see C08)",
         "DESIGN.md §4 C13"),
 "C09": ("fault-enumerator", "fault_enumeration",
         "exhaustive single-fault enumeration on the real crate: every device call (read/write/seek/flush) of the last operation of every explored history fails in turn, with a device-call budget",
         "for every operation kind on FAT12/16/32 (incl. mount, unmount, format_volume, allocation wrap-around) and every position k of its device calls: a fault outside a destructor makes the call return Io carrying the injected error id; never Ok, another kind, a panic or a budget overrun",
         "single fault per execution; whole-FAT scans (>3000 calls) visited at a stride in the middle (reported in evidence); destructor calls identified by the drop_depth hook",
         "DESIGN.md §4 C09"),
 "C10": ("explorer", "model_checking",
         "explicit-state BFS on builder-made volumes with 1-3 FAT copies, mirroring on/off with every active copy, pre-set reserved nibbles; byte comparison of FAT copies after every call",
         "after every call of every history: mirrored copies byte-identical; with mirroring off no write reaches an inactive copy (device log) and inactive copies keep their bytes; entries 0/1, padding entries and FAT32 top nibbles keep their initial values; no chain leaves the volume",
         "bounded by depth/alphabet/configurations listed in the evidence; volumes made by the independent builder",
         "DESIGN.md §4 C10"),
 "C11": ("explorer", "model_checking",
         "explicit-state BFS with a device-log monitor: every write of the last call classified against the independent decoder's region/ownership map of the pre-state",
         "every device write of every call of every history lies in the status byte, fs-info, a writable FAT copy, the fixed root, clusters owned by the operation's may-modify set or clusters free before the call; never boot code, backup boot, other reserved sectors, slack, beyond the declared end, foreign or bad clusters; sentinel tail intact; exact and short-transferring devices; reserved areas of 4/32 sectors",
         "may-modify set derived from the reference model (target file, directories on the path, parent of a handle's entry)",
         "DESIGN.md §4 C11"),
 "C14": ("crash-enumerator", "fault_enumeration",
         "exhaustive crash-point enumeration over the device write log of every explored history; each crash image remounted with the crate and decoded independently",
         "for every explored history with a durability point (successful flush/drop of f, f not modified afterwards) and every later cut: every prefix of the device writes, loss of everything after the last device flush (thorough: bounded subsets of unflushed writes) still yields f with exactly the flushed content",
         "whole-call write granularity (no torn sectors); device honours flush as a barrier",
         "DESIGN.md §4 C14"),
}

NOT_YET = {}

def main():
    props = [json.loads(l) for l in open('/verif/properties.jsonl')]
    ids = [p['id'] for p in props]
    hooks_commits = subprocess.run(['git','-C','/repo','log','--format=%H %s'],capture_output=True,text=True).stdout.splitlines()
    hook_shas = [l.split()[0] for l in hooks_commits if 'verif_hooks' in l]
    m = {
      "version": 1,
      "setup_cmd": "./check --setup",
      "hooks": {
        "guard": "verif_hooks",
        "enable": "cargo feature: harness depends on fatfs = { path = \"/repo\", default-features = false, features = [\"std\",\"alloc\",\"lfn\",\"unicode\",\"verif_hooks\"] }",
        "baseline_off_cmd": "/verif/selftest/repo_suite.sh /repo",
        "source_commits": hook_shas,
        "add_only": True
      },
      "engines": [
        {"name": "fault-enumerator", "path": "mc/fatmc/src/c09.rs", "serves_properties": ["C09"], "kind_free_text": "per explored history: N re-executions of the real crate, each failing one device call"},
        {"name": "crash-enumerator", "path": "mc/fatmc/src/c14.rs", "serves_properties": ["C14"], "kind_free_text": "per explored history: crash images rebuilt from the device write log (prefixes, flush-epoch loss, subsets), remounted and decoded"},
        {"name": "explorer", "path": "mc/harness/src/explore.rs", "serves_properties": [i for i,c in CHECKS.items() if c[0]=="explorer"],
         "kind_free_text": "hand-rolled explicit-state model checker: level-synchronous BFS over operation histories, each node re-executed on the real fatfs crate over an in-memory device; oracle = reference model + independent FAT decoder + device log monitor"},
      ],
      "checks": [],
      "not_applicable": [],
      "notes": "All checks: ./check <id> quick|thorough; exit 0 held / known findings only, 1 violation, 2 machinery failure. Known findings: known_findings.json."
    }
    for i in ids:
        if i in CHECKS:
            eng, level, tech, text, note, ref = CHECKS[i]
            m["checks"].append({
              "property_id": i,
              "quick_cmd": f"./check {i} quick",
              "thorough_cmd": f"./check {i} thorough",
              "evidence_file": f"/verif/evidence/{i}.json",
              "replay_cmd_template": f"./check {i} --replay {{path}}",
              "engine": eng,
              "level_claimed": {"category": level, "text": text, "design_ref": ref},
              "level_note": note,
              "technique": tech,
            })
        else:
            m["not_applicable"].append({"property_id": i, "reason": NOT_YET.get(i, "check not built yet in this round (planned: bounded exhaustive exploration, see DESIGN.md §4); not claimed until it exists")})
    json.dump(m, open('/verif/MANIFEST.json','w'), indent=1)
    print("checks:", [c["property_id"] for c in m["checks"]], "n/a:", len(m["not_applicable"]))

main()
