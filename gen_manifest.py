#!/usr/bin/env python3
"""Generates MANIFEST.json from the table below (single source of truth for the interface)."""
import json, subprocess

CHECKS = {
 # id: (engine, level, technique, text, note, design_ref)
 "C01": ("explorer", "model_checking",
         "explicit-state BFS over operation histories of the real crate, reference tree model + independent decoder",
         "every history up to the stated depth over a collision-forcing namespace alphabet on FAT12/16/32 tiny volumes: results equal the in-memory tree model, raw image decodes to the model tree after every call, failed calls change nothing",
         "bounded by depth/alphabet/configurations listed in the evidence; trusted: independent decoder, determinism of the library (re-execution sample)",
         "DESIGN.md §4 C01"),
}

NOT_YET = {}

def main():
    props = [json.loads(l) for l in open('/verif/properties.jsonl')]
    ids = [p['id'] for p in props]
    hooks_commits = subprocess.run(['git','-C','/repo','log','--format=%H %s'],capture_output=True,text=True).stdout.splitlines()
    hook_shas = [l.split()[0] for l in hooks_commits if 'verif_hooks' in l]
    m = {
      "version": 1,
      "setup_cmd": "./check --setup",
      "hooks": {
        "guard": "verif_hooks",
        "enable": "cargo feature: harness depends on fatfs = { path = \"/repo\", default-features = false, features = [\"std\",\"alloc\",\"lfn\",\"unicode\",\"verif_hooks\"] }",
        "baseline_off_cmd": "/verif/selftest/repo_suite.sh /repo",
        "source_commits": hook_shas,
        "add_only": True
      },
      "engines": [
        {"name": "explorer", "path": "mc/harness/src/explore.rs", "serves_properties": [i for i,c in CHECKS.items() if c[0]=="explorer"],
         "kind_free_text": "hand-rolled explicit-state model checker: level-synchronous BFS over operation histories, each node re-executed on the real fatfs crate over an in-memory device; oracle = reference model + independent FAT decoder + device log monitor"},
      ],
      "checks": [],
      "not_applicable": [],
      "notes": "All checks: ./check <id> quick|thorough; exit 0 held / known findings only, 1 violation, 2 machinery failure. Known findings: known_findings.json."
    }
    for i in ids:
        if i in CHECKS:
            eng, level, tech, text, note, ref = CHECKS[i]
            m["checks"].append({
              "property_id": i,
              "quick_cmd": f"./check {i} quick",
              "thorough_cmd": f"./check {i} thorough",
              "evidence_file": f"/verif/evidence/{i}.json",
              "replay_cmd_template": f"./check {i} --replay {{path}}",
              "engine": eng,
              "level_claimed": {"category": level, "text": text, "design_ref": ref},
              "level_note": note,
              "technique": tech,
            })
        else:
            m["not_applicable"].append({"property_id": i, "reason": NOT_YET.get(i, "check not built yet in this round (planned: bounded exhaustive exploration, see DESIGN.md §4); not claimed until it exists")})
    json.dump(m, open('/verif/MANIFEST.json','w'), indent=1)
    print("checks:", [c["property_id"] for c in m["checks"]], "n/a:", len(m["not_applicable"]))

main()
